// Package mcrt is the controlled runtime of engine E2: drop-in replacements for the
// synchronisation operations used by the explored files (Mutex, RWMutex, go statements,
// select statements), driven by a cooperative scheduler that runs exactly one controlled
// goroutine at a time and decides every scheduling point. Without an active scheduler all
// operations fall through to the real primitives, so the rewritten sources behave normally.
//
// It is imported under the name "sync" by the rewritten repository files, hence the
// aliases for the sync types that are not instrumented.
package mcrt

import (
	"fmt"
	"reflect"
	stdsync "sync"
	"time"
)

// Non-instrumented sync types.
type (
	Pool      = stdsync.Pool
	Once      = stdsync.Once
	WaitGroup = stdsync.WaitGroup
	Map       = stdsync.Map
	Locker    = stdsync.Locker
)

var cur *Sched // the active scheduler (at most one per process at a time)

// ---------------------------------------------------------------- threads and moves

type thread struct {
	id     int
	name   string
	wake   chan int // resumed with the index of the chosen select case (or 0)
	done   bool
	op     *op // operation the thread is parked before
	selRes int
}

type opKind int

const (
	opStart opKind = iota // a freshly spawned thread waiting for its first run
	opLock
	opRLock
	opSelect
	opYield
	opJoin
	opSettle // enabled only when no other thread can move: "let everybody else run until they block"
)

type op struct {
	kind  opKind
	mu    *Mutex
	rw    *RWMutex
	cases []Case
	join  *thread
	desc  string
}

// Case is one communication clause of a rewritten select statement.
type Case struct {
	kind int // 0 recv, 1 send, 2 default
	ch   reflect.Value
	val  reflect.Value
}

// R is a receive clause, S a send clause, D the default clause.
func R(ch any) Case        { return Case{kind: 0, ch: reflect.ValueOf(ch)} }
func S(ch any, v any) Case { return Case{kind: 1, ch: reflect.ValueOf(ch), val: reflect.ValueOf(v)} }
func D() Case              { return Case{kind: 2} }

// Move is one scheduling decision: run thread T (taking select case C if it is parked in a select).
type Move struct{ T, C int }

// Sched runs one execution under a given sequence of choices.
type Sched struct {
	threads []*thread
	running *thread
	parked  chan *thread
	// Choices are indexes into the canonical move list at each step; beyond them choice 0 is taken.
	Choices []int
	// recorded
	Steps     []Step
	Deadlock  bool
	Broken    string
	MaxSteps  int
	Truncated bool
}

// Step records one scheduling point.
type Step struct {
	Moves   []Move
	Chosen  int
	Running int  // thread that was running before the step (-1 none)
	RunEnabled bool // the previously running thread could have continued
	Desc    string
}

func (s *Sched) newThread(name string) *thread {
	t := &thread{id: len(s.threads), name: name, wake: make(chan int)}
	s.threads = append(s.threads, t)
	return t
}

// point parks the calling (running) thread before operation o and waits to be resumed.
func (s *Sched) point(o *op) int {
	t := s.running
	t.op = o
	s.parked <- t
	return <-t.wake
}

// Go spawns a controlled thread (or a plain goroutine without a scheduler).
func Go(f func()) {
	s := cur
	if s == nil {
		go f()
		return
	}
	GoNamed(fmt.Sprintf("g%d", len(s.threads)), f)
}

// GoNamed spawns a named controlled thread.
func GoNamed(name string, f func()) {
	s := cur
	if s == nil {
		go f()
		return
	}
	t := s.newThread(name)
	t.op = &op{kind: opStart}
	go func() {
		<-t.wake
		f()
		t.done = true
		t.op = nil
		s.parked <- t
	}()
	// spawning is a scheduling point for the parent
	Yield()
}

// Yield is an explicit scheduling point.
func Yield() {
	if s := cur; s != nil {
		s.point(&op{kind: opYield})
	}
}

// Settle parks the caller until every other thread is blocked or finished.
func Settle() {
	if s := cur; s != nil {
		s.point(&op{kind: opSettle})
	}
}

// Join blocks until the thread with the given name has finished.
func Join(name string) {
	s := cur
	if s == nil {
		return
	}
	for _, t := range s.threads {
		if t.name == name {
			if !t.done {
				s.point(&op{kind: opJoin, join: t})
			}
			return
		}
	}
}

// ---------------------------------------------------------------- Mutex / RWMutex

type Mutex struct {
	real stdsync.Mutex
	held bool
}

func (m *Mutex) Lock() {
	s := cur
	if s == nil {
		m.real.Lock()
		return
	}
	s.point(&op{kind: opLock, mu: m})
	m.held = true
}

func (m *Mutex) Unlock() {
	if cur == nil {
		m.real.Unlock()
		return
	}
	m.held = false
}

func (m *Mutex) TryLock() bool {
	if cur == nil {
		return m.real.TryLock()
	}
	if m.held {
		return false
	}
	m.held = true
	return true
}

type RWMutex struct {
	real    stdsync.RWMutex
	writer  bool
	readers int
}

func (m *RWMutex) Lock() {
	s := cur
	if s == nil {
		m.real.Lock()
		return
	}
	s.point(&op{kind: opLock, rw: m})
	m.writer = true
}
func (m *RWMutex) Unlock() {
	if cur == nil {
		m.real.Unlock()
		return
	}
	m.writer = false
}
func (m *RWMutex) RLock() {
	s := cur
	if s == nil {
		m.real.RLock()
		return
	}
	s.point(&op{kind: opRLock, rw: m})
	m.readers++
}
func (m *RWMutex) RUnlock() {
	if cur == nil {
		m.real.RUnlock()
		return
	}
	m.readers--
}

// ---------------------------------------------------------------- select

func chanClosed(ch reflect.Value) bool {
	// only called for unbuffered channels nobody sends on blockingly: a successful
	// non-blocking receive can only mean "closed"
	chosen, _, ok := reflect.Select([]reflect.SelectCase{{Dir: reflect.SelectRecv, Chan: ch}, {Dir: reflect.SelectDefault}})
	return chosen == 0 && !ok
}

// ready reports which clauses of a parked select could fire now.
func (s *Sched) readyCases(t *thread) []int {
	var out []int
	def := -1
	for i, c := range t.op.cases {
		switch c.kind {
		case 0:
			if !c.ch.IsValid() || c.ch.IsNil() {
				continue
			}
			if c.ch.Cap() > 0 {
				if c.ch.Len() > 0 || (c.ch.Len() == 0 && chanClosedBuffered(c.ch)) {
					out = append(out, i)
				}
			} else if chanClosed(c.ch) {
				out = append(out, i)
			}
		case 1:
			if c.ch.Cap() > 0 {
				if c.ch.Len() < c.ch.Cap() {
					out = append(out, i)
				}
			} else if s.receiverFor(c.ch, t) != nil {
				out = append(out, i)
			}
		case 2:
			def = i
		}
	}
	if len(out) == 0 && def >= 0 {
		out = append(out, def)
	}
	return out
}

func chanClosedBuffered(ch reflect.Value) bool {
	// an empty buffered channel: a non-blocking receive that succeeds with ok=false means closed
	chosen, _, ok := reflect.Select([]reflect.SelectCase{{Dir: reflect.SelectRecv, Chan: ch}, {Dir: reflect.SelectDefault}})
	return chosen == 0 && !ok
}

// receiverFor finds a thread parked in a select that receives from ch.
func (s *Sched) receiverFor(ch reflect.Value, not *thread) *thread {
	for _, o := range s.threads {
		if o == not || o.done || o.op == nil || o.op.kind != opSelect {
			continue
		}
		for _, c := range o.op.cases {
			if c.kind == 0 && c.ch.IsValid() && c.ch.Pointer() == ch.Pointer() {
				return o
			}
		}
	}
	return nil
}

// Select executes a rewritten select statement and returns the index of the clause taken.
func Select(cases ...Case) int {
	s := cur
	if s == nil {
		return realSelect(cases)
	}
	t := s.running
	// two phases: reaching the select statement is a scheduling point of its own; only after it
	// has been scheduled is the thread "waiting in the select" and visible to non-blocking senders
	// (in Go a non-blocking send succeeds only if the receiver already waits)
	s.point(&op{kind: opYield, desc: "select-enter"})
	idx := s.point(&op{kind: opSelect, cases: cases})
	if idx < 0 {
		// completed by a rendezvous with a sender: nothing left to do
		return t.selRes
	}
	c := cases[idx]
	switch c.kind {
	case 0:
		if c.ch.Cap() > 0 && c.ch.Len() > 0 {
			c.ch.Recv()
		}
		// closed channel: nothing to consume
	case 1:
		if c.ch.Cap() > 0 {
			c.ch.Send(c.val)
		} else if r := s.receiverFor(c.ch, t); r != nil {
			// rendezvous: complete the receiver's select with its matching clause
			for i, rc := range r.op.cases {
				if rc.kind == 0 && rc.ch.IsValid() && rc.ch.Pointer() == c.ch.Pointer() {
					r.selRes = i
				}
			}
			r.op = &op{kind: opYield, desc: "rendezvous"} // runnable, resumes with -1
			r.op.desc = "rendezvous"
		}
	}
	return idx
}

func realSelect(cases []Case) int {
	sc := make([]reflect.SelectCase, len(cases))
	for i, c := range cases {
		switch c.kind {
		case 0:
			sc[i] = reflect.SelectCase{Dir: reflect.SelectRecv, Chan: c.ch}
		case 1:
			sc[i] = reflect.SelectCase{Dir: reflect.SelectSend, Chan: c.ch, Send: c.val}
		case 2:
			sc[i] = reflect.SelectCase{Dir: reflect.SelectDefault}
		}
	}
	chosen, _, _ := reflect.Select(sc)
	return chosen
}

// ---------------------------------------------------------------- the scheduler loop

func (s *Sched) enabledMoves() []Move {
	var moves []Move
	order := make([]*thread, 0, len(s.threads))
	if s.running != nil && !s.running.done {
		order = append(order, s.running)
	}
	for _, t := range s.threads {
		if t != s.running || t.done {
			if !t.done {
				order = append(order, t)
			}
		}
	}
	for _, t := range order {
		if t.op == nil {
			continue
		}
		switch t.op.kind {
		case opStart, opYield:
			moves = append(moves, Move{t.id, 0})
		case opLock:
			if t.op.mu != nil && !t.op.mu.held {
				moves = append(moves, Move{t.id, 0})
			}
			if t.op.rw != nil && !t.op.rw.writer && t.op.rw.readers == 0 {
				moves = append(moves, Move{t.id, 0})
			}
		case opRLock:
			if !t.op.rw.writer {
				moves = append(moves, Move{t.id, 0})
			}
		case opJoin:
			if t.op.join.done {
				moves = append(moves, Move{t.id, 0})
			}
		case opSelect:
			for _, c := range s.readyCases(t) {
				moves = append(moves, Move{t.id, c})
			}
		}
	}
	if len(moves) == 0 {
		// threads waiting for the others to settle may go on now (lowest id first)
		for _, t := range s.threads {
			if !t.done && t.op != nil && t.op.kind == opSettle {
				moves = append(moves, Move{t.id, 0})
				break
			}
		}
	}
	return moves
}

// Run executes body as thread 0 under the scheduler, following s.Choices.
func (s *Sched) Run(body func()) {
	if cur != nil {
		panic("mcrt: nested scheduler")
	}
	cur = s
	defer func() { cur = nil }()
	s.parked = make(chan *thread)
	if s.MaxSteps == 0 {
		s.MaxSteps = 2000
	}
	main := s.newThread("main")
	main.op = &op{kind: opStart}
	go func() {
		<-main.wake
		body()
		main.done = true
		main.op = nil
		s.parked <- main
	}()
	for step := 0; ; step++ {
		moves := s.enabledMoves()
		if len(moves) == 0 {
			for _, t := range s.threads {
				if !t.done {
					s.Deadlock = true
				}
			}
			return
		}
		if step >= s.MaxSteps {
			s.Truncated = true
			return
		}
		choice := 0
		if step < len(s.Choices) {
			choice = s.Choices[step]
			if choice >= len(moves) {
				s.Broken = fmt.Sprintf("step %d: recorded choice %d but only %d moves are enabled", step, choice, len(moves))
				return
			}
		}
		st := Step{Moves: moves, Chosen: choice, Running: -1}
		if s.running != nil {
			st.Running = s.running.id
			st.RunEnabled = len(moves) > 0 && moves[0].T == s.running.id && !s.running.done
		}
		mv := moves[choice]
		t := s.threads[mv.T]
		st.Desc = fmt.Sprintf("%s:%s", t.name, opName(t.op, mv.C))
		s.Steps = append(s.Steps, st)
		s.running = t
		arg := mv.C
		if t.op.kind == opYield && t.op.desc == "rendezvous" {
			arg = -1
		}
		t.op = nil
		t.wake <- arg
		select {
		case <-s.parked:
		case <-time.After(20 * time.Second):
			s.Broken = fmt.Sprintf("thread %s did not reach a scheduling point within 20s (uninstrumented blocking operation?)", t.name)
			return
		}
	}
}

func opName(o *op, c int) string {
	if o == nil {
		return "?"
	}
	switch o.kind {
	case opStart:
		return "start"
	case opLock:
		return "lock"
	case opRLock:
		return "rlock"
	case opYield:
		if o.desc != "" {
			return o.desc
		}
		return "yield"
	case opJoin:
		return "join"
	case opSettle:
		return "settle"
	case opSelect:
		k := []string{"recv", "send", "default"}[o.cases[c].kind]
		return fmt.Sprintf("select#%d(%s)", c, k)
	}
	return "?"
}

// Preemptions counts the context switches away from a still-enabled running thread.
func (s *Sched) Preemptions() int {
	n := 0
	for _, st := range s.Steps {
		if st.RunEnabled && st.Moves[st.Chosen].T != st.Running {
			n++
		}
	}
	return n
}

// Trace renders the schedule.
func (s *Sched) Trace() []string {
	out := make([]string, len(s.Steps))
	for i, st := range s.Steps {
		out[i] = st.Desc
	}
	return out
}

// JoinAll blocks until every other thread that exists now has finished, repeatedly, until no
// new thread appeared meanwhile.
func JoinAll() {
	s := cur
	if s == nil {
		return
	}
	me := s.running
	for {
		n := len(s.threads)
		for _, t := range s.threads[:n] {
			if t != me && !t.done {
				s.point(&op{kind: opJoin, join: t})
			}
		}
		if len(s.threads) == n {
			return
		}
	}
}
