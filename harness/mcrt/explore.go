package mcrt

import (
	"fmt"
	"os"
	"runtime"
	"runtime/pprof"
)

// Explore enumerates all schedules of body with at most `bound` preemptions (iteratively,
// 0..bound), calling check after every complete execution. check returns a non-empty string
// to report a failure. setup must build a fresh instance for every execution.
type Result struct {
	Executions  int64
	Steps       int64
	Deadlocks   int64
	Truncated   int64
	Completed   int // highest preemption bound fully explored
	Broken      string
	Failures    int
	Outcomes    map[string]int64
}

type Failure struct {
	Msg     string
	Choices []int
	Trace   []string
}

func Explore(bound int, maxExec int64, run func(s *Sched) (outcome string, fail string), onFail func(Failure), stop func() bool) Result {
	res := Result{Outcomes: map[string]int64{}, Completed: -1}
	for b := 0; b <= bound; b++ {
		complete := exploreBound(b, maxExec, run, onFail, stop, &res)
		if res.Broken != "" {
			return res
		}
		if !complete {
			return res
		}
		res.Completed = b
	}
	return res
}

func exploreBound(bound int, maxExec int64, run func(s *Sched) (string, string), onFail func(Failure), stop func() bool, res *Result) bool {
	complete := true
	var rec func(prefix []int)
	rec = func(prefix []int) {
		if (maxExec > 0 && res.Executions >= maxExec) || (stop != nil && stop()) {
			complete = false
			return
		}
		s := &Sched{Choices: prefix}
		outcome, fail := run(s)
		res.Executions++
		if res.Executions%50000 == 0 && os.Getenv("VERIF_MEMSTAT") != "" {
			var ms runtime.MemStats
			runtime.ReadMemStats(&ms)
			fmt.Fprintf(os.Stderr, "memstat: executions=%d goroutines=%d heap=%dMB\n", res.Executions, runtime.NumGoroutine(), ms.HeapAlloc>>20)
			if res.Executions == 50000 && os.Getenv("VERIF_MEMSTAT") == "goroutines" {
				_ = pprof.Lookup("goroutine").WriteTo(os.Stderr, 1)
			}
		}
		res.Steps += int64(len(s.Steps))
		if s.Broken != "" {
			res.Broken = s.Broken
			return
		}
		if s.Deadlock {
			res.Deadlocks++
		}
		if s.Truncated {
			res.Truncated++
		}
		res.Outcomes[outcome]++
		if fail != "" {
			res.Failures++
			ch := make([]int, len(s.Steps))
			for i, st := range s.Steps {
				ch[i] = st.Chosen
			}
			onFail(Failure{Msg: fail, Choices: ch, Trace: s.Trace()})
		}
		// branch on every later point
		pre := 0
		for i, st := range s.Steps {
			if i >= len(prefix) {
				for alt := 1; alt < len(st.Moves); alt++ {
					cost := pre
					if st.RunEnabled && st.Moves[alt].T != st.Running {
						cost++
					}
					if cost > bound {
						continue
					}
					// only schedules with exactly `bound` or fewer preemptions; lower bounds were
					// explored before, so skip alternatives that cannot add anything new is not
					// attempted (simple iterative deepening)
					np := make([]int, i+1)
					for k := 0; k < i; k++ {
						np[k] = s.Steps[k].Chosen
					}
					np[i] = alt
					rec(np)
					if res.Broken != "" {
						return
					}
				}
			}
			if st.RunEnabled && st.Moves[st.Chosen].T != st.Running {
				pre++
			}
		}
	}
	rec(nil)
	return complete
}
