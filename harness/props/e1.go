package props

import (
	"fmt"
	"strings"
	"sync"
	"time"

	"github.com/relab/hotstuff"
	"github.com/relab/hotstuff/protocol/rules"
	"github.com/relab/hotstuff/zverif/cluster"
	"github.com/relab/hotstuff/zverif/ev"
	"github.com/relab/hotstuff/zverif/par"
)

func init() {
	for _, id := range []string{"C01", "C03", "C06", "C07"} {
		id := id
		Registry[id] = func(r *ev.Reporter, args []string) { e1Check(r, id, args) }
	}
}

// e1Run describes one exploration.
type e1Run struct {
	name  string
	cfg   cluster.Config
	bound int // deviation bound (-1 = all interleavings)
	max   time.Duration
}

func e1Runs(quick bool) []e1Run {
	var runs []e1Run
	for _, rs := range cluster.RulesNames {
		fast := rs == rules.NameFastHotStuff // never commits on this tree (known finding C05): fewer runs
		if quick {
			if rs != rules.NameSimpleHotStuff {
				runs = append(runs, e1Run{"all interleavings, fault-free", cluster.Config{N: 4, Rules: rs, Horizon: 1, Timeouts: 1}, -1, 20 * time.Second})
			}
			runs = append(runs, e1Run{"<=1 deviation, fault-free", cluster.Config{N: 4, Rules: rs, Horizon: 6, Timeouts: 12, Dups: 1, Drops: true}, 1, 25 * time.Second})
			if !fast {
				runs = append(runs,
					e1Run{"<=1 deviation, twin", cluster.Config{N: 4, Rules: rs, Horizon: 6, Timeouts: 12, Drops: true, Twin: 3}, 1, 25 * time.Second},
					e1Run{"<=1 deviation, scripted Byzantine replica", cluster.Config{N: 4, Rules: rs, Horizon: 5, Timeouts: 12, Byz: 2, Crafter: 4}, 1, 25 * time.Second},
					e1Run{"<=1 deviation, one silent replica", cluster.Config{N: 4, Rules: rs, Horizon: 8, Timeouts: 16, Drops: true, Crashed: map[hotstuff.ID]bool{4: true}}, 1, 25 * time.Second},
				)
			}
		} else {
			runs = append(runs,
				e1Run{"all interleavings, fault-free", cluster.Config{N: 4, Rules: rs, Horizon: 2, Timeouts: 1}, -1, 3 * time.Minute},
				e1Run{"<=2 deviations, fault-free", cluster.Config{N: 4, Rules: rs, Horizon: 6, Timeouts: 12, Dups: 1, Drops: true}, 2, 3 * time.Minute},
				e1Run{"<=1 deviation, fault-free, n=7", cluster.Config{N: 7, Rules: rs, Horizon: 5, Timeouts: 12, Drops: true}, 1, 2 * time.Minute},
			)
			if !fast {
				runs = append(runs,
					e1Run{"<=2 deviations, twin", cluster.Config{N: 4, Rules: rs, Horizon: 6, Timeouts: 12, Drops: true, Twin: 3}, 2, 3 * time.Minute},
					e1Run{"<=2 deviations, scripted Byzantine replica", cluster.Config{N: 4, Rules: rs, Horizon: 6, Timeouts: 12, Byz: 3, Drops: true, Crafter: 4}, 2, 4 * time.Minute},
					e1Run{"<=2 deviations, one silent replica", cluster.Config{N: 4, Rules: rs, Horizon: 7, Timeouts: 16, Drops: true, Crashed: map[hotstuff.ID]bool{4: true}}, 2, 3 * time.Minute},
				)
			}
		}
	}
	return runs
}

func e1Check(r *ev.Reporter, prop string, _ []string) {
	r.Rule = "closed system of n real replicas (+ twin pair / scripted Byzantine replica): every order of deliveries, duplicate deliveries, local timer expiries and crafted messages within the view horizon and budgets, canonical-state merging; monitors for C01/C03/C06/C07 on every transition; C03 and C07 additionally: one real replica against an environment holding all other keys, every input sequence to a depth bound; distinct = canonical global states"
	var bounds []string
	for _, run := range e1Runs(r.Quick()) {
		ex := &cluster.Explorer{Cfg: run.cfg, Bound: run.bound, Deadline: time.Now().Add(run.max)}
		desc := fmt.Sprintf("%s, %s n=%d horizon=%d timeouts<=%d dups<=%d byz<=%d twin=%d crafter=%d loss=%v", run.name, run.cfg.Rules, run.cfg.N, run.cfg.Horizon, run.cfg.Timeouts, run.cfg.Dups, run.cfg.Byz, run.cfg.Twin, run.cfg.Crafter, run.cfg.Drops)
		ex.OnViolation = func(v cluster.Violation, path []string) {
			if v.Prop != prop {
				return
			}
			r.Violation(fmt.Sprintf("%s %s: %s", prop, run.cfg.Rules, v.Sig), fmt.Sprintf("%s, events [%s]: %s", desc, strings.Join(path, " | "), v.What), map[string]any{"config": desc, "events": path})
		}
		var sampleMu sync.Mutex
		sampled := false
		ex.OnState = func(w *cluster.World, path []string) {
			if len(path) >= 12 && !sampled {
				sampleMu.Lock()
				if !sampled {
					sampled = true
					views := []int{}
					for _, n := range w.Nodes {
						views = append(views, int(n.VS.View()))
					}
					r.Sample(map[string]any{"run": desc, "events": append([]string(nil), path...), "views_after": views, "commits_observed": w.Mon.Commits})
				}
				sampleMu.Unlock()
			}
		}
		ex.Run()
		if d := ex.Diverged.Load(); d != nil {
			ev.Broken("%s: replay divergence: %v", desc, d)
		}
		r.Count(ex.States, ex.Transitions, ex.Transitions, ex.States)
		b := fmt.Sprintf("%s: states=%d transitions=%d terminal=%d max_depth=%d states_with_commits=%d replayed_events=%d determinism_checks=%d complete=%v", desc, ex.States, ex.Transitions, ex.Terminal, ex.MaxDepth, ex.Commits, ex.Replayed, ex.DetChecks(), !ex.Stopped.Load())
		bounds = append(bounds, b)
		fmt.Println(b)
		if ex.Stopped.Load() {
			r.Cap(desc + ": time cap reached")
		}
		if ex.Starved > 0 {
			r.Cap(fmt.Sprintf("%s: %d executions abandoned, command stock exhausted", desc, ex.Starved))
		}
	}
	e1Scenarios(r, prop)
	if prop == "C06" {
		c06Chains(r)
	}
	if prop == "C03" {
		c03Local(r)
	}
	if prop == "C07" {
		c07Local(r)
	}
	r.Extra["explorations"] = bounds
	r.Traces = r.Transitions
	r.Sample("chainedhotstuff n=4: init (leader 2 proposes view 1) | D ProposeMsg 1>0 | D ProposeMsg 1>2 | D VoteMsg 0>2 | T 3 | ...")
	r.Assume("vote verification is synchronous; EdDSA with fixed keys; the wall clock in block hashes is a harness constant")
	_ = hotstuff.ID(0)
	r.Explanation = "Each transition runs the real handlers of one replica to quiescence; replay determinism is re-checked on the first 200 states and every 500th."
}


// e1Scenarios: Twins-style scenario enumeration on the same closed system. Every scenario fixes,
// for each of its views, the leader (any replica id, the twinned one included) and a two-block
// partition of the node slots; the lock-step FIFO schedule is run to completion (timers at
// quiescence), later views are healed. One real execution per scenario, all monitors attached.
func e1Scenarios(r *ev.Reporter, prop string) {
	views := 2
	budget := 40 * time.Second
	if !r.Quick() {
		views = 3
		budget = 8 * time.Minute
	}
	type job struct {
		rs string
		sc []cluster.ScView
	}
	var jobs []job
	const slots = 5 // replicas 1,2,4 + the two twins of replica 3
	var masks []uint32
	for m := uint32(0); m < 1<<slots; m++ {
		if m&1 == 1 { // slot 0 always in block A (the complement is the same partition)
			masks = append(masks, m)
		}
	}
	for _, rs := range []string{rules.NameChainedHotStuff, rules.NameSimpleHotStuff} {
		var sc []cluster.ScView
		var rec func()
		rec = func() {
			if len(sc) == views {
				jobs = append(jobs, job{rs, append([]cluster.ScView(nil), sc...)})
				return
			}
			for l := 1; l <= 4; l++ {
				for _, m := range masks {
					sc = append(sc, cluster.ScView{Leader: hotstuff.ID(l), Mask: m})
					rec()
					sc = sc[:len(sc)-1]
				}
			}
		}
		rec()
	}
	deadline := time.Now().Add(budget)
	var done, events, withCommits, skipped int64
	var mu sync.Mutex
	par.Each(len(jobs), func(i int) {
		if time.Now().After(deadline) {
			mu.Lock()
			skipped++
			mu.Unlock()
			return
		}
		j := jobs[i]
		cfg := cluster.Config{N: 4, Rules: j.rs, Horizon: hotstuff.View(views + 4), Timeouts: 40, Twin: 3, Scenario: j.sc, Cache: 100}
		w := cluster.New(cfg)
		n := 0
		for ; n < 3000; n++ {
			d := w.Default()
			if d == "" || w.Starved {
				break
			}
			if !w.Apply(d) {
				ev.Broken("scenario run: default event not applicable")
			}
		}
		mu.Lock()
		done++
		events += int64(n)
		if w.Mon.Commits > 0 {
			withCommits++
		}
		if done == 17 {
			r.Sample(map[string]any{"scenario": fmt.Sprint(j.sc), "ruleset": j.rs, "events": n, "commits_observed": w.Mon.Commits})
		}
		mu.Unlock()
		for _, v := range w.Mon.Viol {
			if v.Prop == prop {
				r.Violation(fmt.Sprintf("%s %s: %s", prop, j.rs, v.Sig), fmt.Sprintf("scenario (leader, partition mask over slots [r1 r2 r3a r3b r4]) %v, %s, lock-step schedule, events [%s]: %s", j.sc, j.rs, strings.Join(w.Trace, " | "), v.What), map[string]any{"scenario": fmt.Sprint(j.sc), "ruleset": j.rs, "events": w.Trace})
			}
		}
	})
	r.Count(done, events, events, withCommits)
	r.Extra["scenario_part"] = fmt.Sprintf("%d-view scenarios x {chained, simple}: %d of %d executed (%d not run: time cap), %d events, %d executions with commits", views, done, len(jobs), skipped, events, withCommits)
	if skipped > 0 {
		r.Cap(fmt.Sprintf("scenario enumeration: %d of %d scenarios not run (time cap)", skipped, len(jobs)))
	}
}
