package props

import (
	"fmt"
	"strings"

	"github.com/relab/hotstuff"
	"github.com/relab/hotstuff/core"
	"github.com/relab/hotstuff/core/eventloop"
	"github.com/relab/hotstuff/protocol/consensus"
	"github.com/relab/hotstuff/protocol/rules"
	"github.com/relab/hotstuff/security/blockchain"
	"github.com/relab/hotstuff/zverif/dump"
	"github.com/relab/hotstuff/zverif/ev"
	"github.com/relab/hotstuff/zverif/fix"
	"github.com/relab/hotstuff/zverif/par"
)

func init() { Registry["C04"] = c04 }

// rBlock: abstract block of the rules forest. parent/qc: -1 genesis, -2 missing, else index.
type rBlock struct {
	parent, qc, view int
}

type rForest []rBlock

func link(i int) string {
	switch i {
	case -1:
		return "G"
	case -2:
		return "missing"
	}
	return fmt.Sprintf("b%d", i)
}

func (f rForest) String() string {
	var sb []string
	for i, b := range f {
		sb = append(sb, fmt.Sprintf("b%d(v%d parent=%s qc=%s)", i, b.view, link(b.parent), link(b.qc)))
	}
	return strings.Join(sb, " ")
}

func rForests(k, maxView int, fn func(rForest)) {
	f := make(rForest, 0, k)
	var rec func()
	rec = func() {
		if len(f) == k {
			fn(f)
			return
		}
		for p := -2; p < len(f); p++ {
			for q := -2; q < len(f); q++ {
				minV := 1
				if p >= 0 && f[p].view+1 > minV {
					minV = f[p].view + 1
				}
				if q >= 0 && f[q].view+1 > minV {
					minV = f[q].view + 1
				}
				for v := minV; v <= maxView; v++ {
					if len(f) > 0 && v < f[len(f)-1].view {
						continue // listed in non-decreasing view order (cuts symmetric copies)
					}
					f = append(f, rBlock{p, q, v})
					rec()
					f = f[:len(f)-1]
				}
			}
		}
	}
	rec()
}

// ---- reference: the published rules over the abstract forest ----

type refRules struct {
	name  string
	f     rForest
	known []bool // which blocks are in the store
	lock  int    // -1 genesis
}

func (r *refRules) view(i int) int {
	if i == -1 {
		return 0
	}
	return r.f[i].view
}

// have reports whether block i can be looked up (genesis always; missing never).
func (r *refRules) have(i int) bool { return i == -1 || (i >= 0 && r.known[i]) }

// extends: target lies on block's parent chain (through known blocks) or is the block itself.
func (r *refRules) extends(b, target int, selfKnown bool) bool {
	cur := b
	for {
		if cur == target {
			return true
		}
		if cur < 0 {
			return false
		}
		if cur != b && !r.known[cur] {
			return false
		}
		nxt := r.f[cur].parent
		if nxt == -2 || (nxt >= 0 && !r.known[nxt]) {
			return false
		}
		cur = nxt
	}
}

func (r *refRules) vote(viewArg, b int, agg bool) bool {
	blk := r.f[b]
	switch r.name {
	case rules.NameChainedHotStuff:
		// safety: extends the locked block; liveness: justify is newer than the lock
		if r.have(blk.qc) && r.view(blk.qc) > r.view(r.lock) {
			return true
		}
		return r.extends(b, r.lock, false)
	case rules.NameFastHotStuff:
		if agg {
			return r.have(blk.qc) && r.extends(b, blk.qc, false)
		}
		return blk.view >= viewArg && r.have2QCView(blk) && blk.view == r.qcClaimedView(blk)+1
	case rules.NameSimpleHotStuff:
		if blk.view < viewArg {
			return false
		}
		if !r.have(blk.qc) {
			return false
		}
		return r.view(blk.qc) >= r.view(r.lock)
	}
	panic("ruleset")
}

// the QC's claimed view: in these forests a QC names its block's view (0 for genesis; for a
// missing block the harness stamps view 0 as well).
func (r *refRules) qcClaimedView(b rBlock) int {
	if b.qc >= 0 {
		return r.f[b.qc].view
	}
	return 0
}
func (r *refRules) have2QCView(rBlock) bool { return true }

// commit applies the commit/lock rule for the newly stored block b and returns the decided block or -3.
func (r *refRules) commit(b int) int {
	const none = -3
	blk := r.f[b]
	switch r.name {
	case rules.NameChainedHotStuff:
		b1 := blk.qc
		if !r.have(b1) || b1 == -1 && false {
			return none
		}
		if b1 == -1 {
			return none // genesis carries no certificate to follow
		}
		b2 := r.f[b1].qc
		if !r.have(b2) {
			return none
		}
		if r.view(b2) > r.view(r.lock) {
			r.lock = b2
		}
		if b2 == -1 {
			return none
		}
		b3 := r.f[b2].qc
		if !r.have(b3) {
			return none
		}
		if r.f[b1].parent == b2 && r.f[b1].view == r.view(b2)+1 && r.f[b2].parent == b3 && r.f[b2].view == r.view(b3)+1 {
			return b3
		}
		return none
	case rules.NameFastHotStuff:
		p := blk.qc
		if !r.have(p) || p == -1 {
			return none
		}
		gp := r.f[p].qc
		if !r.have(gp) {
			return none
		}
		if blk.parent == p && blk.view == r.view(p)+1 && r.f[p].parent == gp && r.f[p].view == r.view(gp)+1 {
			return gp
		}
		return none
	case rules.NameSimpleHotStuff:
		p := blk.qc
		if !r.have(p) || p == -1 {
			return none
		}
		gp := r.f[p].qc
		if !r.have(gp) {
			return none
		}
		if r.view(gp) > r.view(r.lock) {
			r.lock = gp
		}
		if gp == -1 {
			return none
		}
		ggp := r.f[gp].qc
		if r.have(ggp) && r.view(ggp)+2 == r.view(p) {
			return ggp
		}
		return none
	}
	panic("ruleset")
}

// ---- real side ----

type c04Real struct {
	rs     consensus.Ruleset
	chain  *blockchain.Blockchain
	blocks []*hotstuff.Block
}

func c04Realize(f rForest, name string) *c04Real {
	lg := &fix.NopLogger{}
	el := eventloop.New(lg, 100)
	snd := &fix.Sender{ID: 1}
	chain := blockchain.New(el, lg, snd)
	opts := []core.RuntimeOption{}
	if name == rules.NameFastHotStuff {
		opts = append(opts, core.WithAggregateQC())
	}
	cfg := core.NewRuntimeConfig(1, nil, opts...)
	rs, err := rules.New(lg, cfg, chain, name)
	if err != nil {
		panic(err)
	}
	missing := hotstuff.Hash{0xaa}
	bs := make([]*hotstuff.Block, len(f))
	hashOf := func(i int) hotstuff.Hash {
		switch i {
		case -1:
			return hotstuff.GetGenesis().Hash()
		case -2:
			return missing
		}
		return bs[i].Hash()
	}
	for i, b := range f {
		qv := 0
		if b.qc >= 0 {
			qv = f[b.qc].view
		}
		qc := hotstuff.NewQuorumCert(nil, hotstuff.View(qv), hashOf(b.qc))
		bs[i] = hotstuff.NewBlock(hashOf(b.parent), qc, fix.Batch(fix.Cmd(1, uint64(i+1))), hotstuff.View(b.view), 1)
	}
	return &c04Real{rs: rs, chain: chain, blocks: bs}
}

func (c *c04Real) lockView() (int, bool) {
	for _, n := range []string{"bLock", "locked"} {
		if v, ok := dump.Field(c.rs, n); ok {
			if b, ok := v.(*hotstuff.Block); ok && b != nil {
				return int(b.View()), true
			}
		}
	}
	return 0, false
}

func c04(r *ev.Reporter, _ []string) {
	r.Rule = "every forest of k blocks (parent and QC link each in {genesis, earlier block, missing}, equal or different; views increasing along both links, gaps and equal views on different branches) x every presentation order (child before parent included) x per-block mode {proposal flow: VoteRule then Store+CommitRule if voted, fetched: Store only} x VoteRule view argument {v-1,v,v+1} (x AggQC absent/present for fast-hotstuff), three real rulesets vs. an independent reference of the published rules; distinct = (forest, order, modes, ruleset) flows"
	k := 3
	maxView := 4
	if !r.Quick() {
		k, maxView = 4, 5
	}
	for kk := 1; kk <= k; kk++ {
		var all []rForest
		rForests(kk, maxView, func(f rForest) { all = append(all, append(rForest(nil), f...)) })
		if kk == 4 {
			// thorough k=4: keep forests whose last block has a known QC link (the others add nothing new)
			var keep []rForest
			for _, f := range all {
				if f[3].qc >= 0 {
					keep = append(keep, f)
				}
			}
			all = keep
		}
		par.Each(len(all), func(i int) { c04Forest(r, all[i]) })
	}
	// two-branch family: honest-shaped blocks (parent = QC block) on a main chain and one fork,
	// every fork point, every interleaving of the branches' views (optionally one view gap),
	// presented in view order: reaches the deep lock / commit states the small forests cannot.
	total := 7
	if !r.Quick() {
		total = 9
	}
	var fam []rForest
	for n := 2; n <= total; n++ {
		for a := 1; a <= n; a++ {
			b := n - a
			for fork := -1; fork < a-1 || (fork == -1 && b > 0 && a >= 1); fork++ {
				if b == 0 && fork > -1 {
					break
				}
				// choose which of the n view slots belong to branch B (positions after the fork block)
				var rec func(pos int, ai, bi int, slots []bool)
				rec = func(pos, ai, bi int, slots []bool) {
					if pos == n {
						if ai != a || bi != b {
							return
						}
						for gap := -1; gap < n; gap++ {
							f := make(rForest, 0, n)
							aIdx := make([]int, 0, a)
							lastB := -3
							ok := true
							for i, isB := range slots {
								view := i + 1
								if gap >= 0 && i >= gap {
									view++
								}
								if !isB {
									par := -1
									if len(aIdx) > 0 {
										par = aIdx[len(aIdx)-1]
									}
									f = append(f, rBlock{par, par, view})
									aIdx = append(aIdx, len(f)-1)
								} else {
									par := lastB
									if par == -3 {
										// first block of the fork hangs below main-chain block number `fork`
										if fork == -1 {
											par = -1
										} else if fork < len(aIdx) {
											par = aIdx[fork]
										} else {
											ok = false
											break
										}
									}
									f = append(f, rBlock{par, par, view})
									lastB = len(f) - 1
								}
							}
							if ok {
								fam = append(fam, f)
							}
						}
						return
					}
					if ai < a {
						rec(pos+1, ai+1, bi, append(slots, false))
					}
					if bi < b {
						rec(pos+1, ai, bi+1, append(slots, true))
					}
				}
				rec(0, 0, 0, nil)
				if b == 0 {
					break
				}
			}
		}
	}
	par.Each(len(fam), func(i int) {
		f := fam[i]
		order := make([]int, len(f))
		for j := range order {
			order[j] = j
		}
		var st, tr, nt int64
		for _, name := range []string{rules.NameChainedHotStuff, rules.NameFastHotStuff, rules.NameSimpleHotStuff} {
			for dv := -1; dv <= 0; dv++ {
				st++
				msg, steps, commits := c04Flow(f, order, name, 0, dv, false)
				tr += int64(steps)
				if commits > 0 {
					nt++
				}
				if msg != "" {
					r.Violation(fmt.Sprintf("C04 %s: %s", name, classify(msg)), fmt.Sprintf("%s two-branch forest %v in view order, view-arg %+d: %s", name, f, dv, msg),
						map[string]any{"ruleset": name, "forest": f.String(), "viewArgDelta": dv})
				}
			}
		}
		r.Count(st, tr, st, nt)
	})
	r.Extra["two_branch_family_forests"] = len(fam)
	r.Extra["two_branch_family_max_blocks"] = total
	r.Extra["max_blocks"] = k
	r.Extra["max_view"] = maxView
	r.Sample("chained, forest b0(v1 parent=G qc=G) b1(v2 parent=b0 qc=b0) b2(v3 parent=b1 qc=b1) b3... order b0 b1 b2: lock moves to b0 at b2; decide needs a fourth block")
	r.Sample("simple, forest b0(v1 G/G) b1(v2 b0/b0) b2(v3 b1/b1) presented b2 b1 b0 (children first): no vote for b2 (QC block unknown)")
	r.Traces = r.Evaluations
	r.Assume("QC objects carry the view of the block they name (C02 enforces that for verified certificates)")
	r.Assume("simple-hotstuff: the published rule has one link per block; the reference follows QC links as the rule's only link")
	r.Explanation = "VoteRule/CommitRule of the three real rulesets run over a real Blockchain whose sender never finds missing blocks; the reference is a ~120-line abstract implementation of the papers' rules."
}

func c04Forest(r *ev.Reporter, f rForest) {
	k := len(f)
	var st, tr, nt int64
	perm := make([]int, 0, k)
	used := make([]bool, k)
	names := []string{rules.NameChainedHotStuff, rules.NameFastHotStuff, rules.NameSimpleHotStuff}
	var recPerm func()
	recPerm = func() {
		if len(perm) < k {
			for i := 0; i < k; i++ {
				if !used[i] {
					used[i] = true
					perm = append(perm, i)
					recPerm()
					perm = perm[:len(perm)-1]
					used[i] = false
				}
			}
			return
		}
		for _, name := range names {
			aggs := []bool{false}
			if name == rules.NameFastHotStuff {
				aggs = []bool{false, true}
			}
			for modes := 0; modes < 1<<k; modes++ {
				for dv := -1; dv <= 1; dv++ {
					if name == rules.NameChainedHotStuff && dv != 0 {
						continue // the view argument is unused by this ruleset (checked once below)
					}
					for _, agg := range aggs {
						st++
						msg, steps, commits := c04Flow(f, perm, name, modes, dv, agg)
						tr += int64(steps)
						if commits > 0 {
							nt++
						}
						if msg != "" {
							r.Violation(fmt.Sprintf("C04 %s: %s", name, classify(msg)), fmt.Sprintf("%s forest %v order %v fetched-mask %b view-arg %+d agg=%v: %s", name, f, perm, modes, dv, agg, msg),
								map[string]any{"ruleset": name, "forest": f.String(), "order": append([]int(nil), perm...), "fetchedMask": modes, "viewArgDelta": dv, "aggQC": agg})
						}
					}
				}
			}
		}
	}
	recPerm()
	r.Count(st, tr, st, nt)
}

// c04Flow runs one flow on a fresh real ruleset and the reference; returns the first disagreement.
func c04Flow(f rForest, order []int, name string, fetchedMask, dv int, agg bool) (string, int, int) {
	real := c04Realize(f, name)
	ref := &refRules{name: name, f: f, known: make([]bool, len(f)), lock: -1}
	steps, commits := 0, 0
	for pos, b := range order {
		blk := real.blocks[b]
		if fetchedMask&(1<<pos) != 0 {
			real.chain.Store(blk)
			ref.known[b] = true
			steps++
			continue
		}
		viewArg := f[b].view + dv
		if viewArg < 0 {
			viewArg = 0
		}
		prop := hotstuff.ProposeMsg{ID: 1, Block: blk}
		if agg {
			a := hotstuff.NewAggregateQC(nil, nil, 0)
			prop.AggregateQC = &a
		}
		var got bool
		if p := safely(func() { got = real.rs.VoteRule(hotstuff.View(viewArg), prop) }); p != nil {
			return fmt.Sprintf("VoteRule(b%d) panicked: %v", b, p), steps, commits
		}
		steps++
		want := ref.vote(viewArg, b, agg)
		if got != want {
			return fmt.Sprintf("VoteRule(view %d, b%d) = %v, published rule says %v (lock view %d)", viewArg, b, got, want, ref.view(ref.lock)), steps, commits
		}
		if !got {
			continue
		}
		real.chain.Store(blk)
		ref.known[b] = true
		var dec *hotstuff.Block
		if p := safely(func() { dec = real.rs.CommitRule(blk) }); p != nil {
			return fmt.Sprintf("CommitRule(b%d) panicked: %v", b, p), steps, commits
		}
		steps++
		wantDec := ref.commit(b)
		switch {
		case dec == nil && wantDec != -3:
			return fmt.Sprintf("CommitRule(b%d) = none, published rule decides %s", b, link(wantDec)), steps, commits
		case dec != nil && wantDec == -3:
			return fmt.Sprintf("CommitRule(b%d) decides the view-%d block, published rule decides nothing", b, dec.View()), steps, commits
		case dec != nil:
			wantHash := hotstuff.GetGenesis().Hash()
			if wantDec >= 0 {
				wantHash = real.blocks[wantDec].Hash()
			}
			if dec.Hash() != wantHash {
				return fmt.Sprintf("CommitRule(b%d) decides the view-%d block, published rule decides %s", b, dec.View(), link(wantDec)), steps, commits
			}
			commits++
			// structural clause: tail of a chain of directly linked, consecutively numbered, certified blocks
			if msg := c04Structural(f, name, b, wantDec); msg != "" {
				return msg, steps, commits
			}
		}
		if lv, ok := real.lockView(); ok && name != rules.NameFastHotStuff {
			if lv != ref.view(ref.lock) {
				return fmt.Sprintf("after b%d the lock is on view %d, published rule locks view %d", b, lv, ref.view(ref.lock)), steps, commits
			}
		}
	}
	return "", steps, commits
}

// c04Structural checks the chain below the block that triggered a decision.
func c04Structural(f rForest, name string, trigger, decided int) string {
	view := func(i int) int {
		if i == -1 {
			return 0
		}
		return f[i].view
	}
	switch name {
	case rules.NameChainedHotStuff:
		b1 := f[trigger].qc
		b2 := f[b1].qc
		if f[b1].parent != b2 || f[b2].parent != decided || view(b1) != view(b2)+1 || view(b2) != view(decided)+1 {
			return fmt.Sprintf("decided %s is not the tail of a directly linked, consecutively numbered three-chain", link(decided))
		}
	case rules.NameFastHotStuff:
		p := f[trigger].qc
		if f[trigger].parent != p || f[p].parent != decided || view(trigger) != view(p)+1 || view(p) != view(decided)+1 {
			return fmt.Sprintf("decided %s is not the tail of a directly linked, consecutively numbered two-chain", link(decided))
		}
	case rules.NameSimpleHotStuff:
		p := f[trigger].qc
		gp := f[p].qc
		if f[gp].qc != decided || view(p) != view(decided)+2 || !(view(decided) < view(gp) && view(gp) < view(p)) {
			return fmt.Sprintf("decided %s is not the tail of a consecutively numbered chain of certificates", link(decided))
		}
	}
	return ""
}
