package props

import (
	"fmt"
	"math"

	"github.com/relab/hotstuff"
	"github.com/relab/hotstuff/core"
	"github.com/relab/hotstuff/internal/tree"
	"github.com/relab/hotstuff/protocol"
	"github.com/relab/hotstuff/protocol/leaderrotation"
	"github.com/relab/hotstuff/security/crypto"
	"github.com/relab/hotstuff/zverif/ev"
	"github.com/relab/hotstuff/zverif/fix"
)

func init() { Registry["C16"] = c16 }

func c16Views(quick bool) []hotstuff.View {
	var vs []hotstuff.View
	top := 4096
	if quick {
		top = 1024
	}
	for v := 0; v <= top; v++ {
		vs = append(vs, hotstuff.View(v))
	}
	for _, c := range []uint64{1 << 32, 1 << 63} {
		for d := uint64(0); d < 64; d++ {
			vs = append(vs, hotstuff.View(c-32+d))
		}
	}
	for d := uint64(0); d < 64; d++ {
		vs = append(vs, hotstuff.View(math.MaxUint64-63+d))
	}
	return vs
}

func bareConfigs(n int) []*core.RuntimeConfig {
	cfgs := make([]*core.RuntimeConfig, n)
	for i := range cfgs {
		cfgs[i] = core.NewRuntimeConfig(hotstuff.ID(i+1), nil)
		for j := 1; j <= n; j++ {
			cfgs[i].AddReplica(&hotstuff.ReplicaInfo{ID: hotstuff.ID(j)})
		}
	}
	return cfgs
}

func c16(r *ev.Reporter, _ []string) {
	r.Rule = "stateless schemes: n in 1..64 x views {0..V} + 64 views around 2^32, 2^63, 2^64-1, every replica's own instance; carousel/reputation: all (head signer set >= quorum, last-f proposers, seed, query views) for n in {4,7,10} and all head sequences of length <=L; carousel history independence: all sequences of <=5 operations {commit next block, ask one of three views} on a long-lived instance vs. an instance created at that moment; distinct = distinct (scheme,n,input)"
	views := c16Views(r.Quick())
	// (a) stateless schemes
	for n := 1; n <= 64; n++ {
		cfgs := bareConfigs(n)
		rr := make([]leaderrotation.LeaderRotation, n)
		fx := make([]leaderrotation.LeaderRotation, n)
		for i, cfg := range cfgs {
			rr[i] = leaderrotation.NewRoundRobin(cfg)
			fx[i] = leaderrotation.NewFixed(1)
		}
		var window []hotstuff.ID
		var prev hotstuff.View
		for k, v := range views {
			var p any
			var l0, f0 hotstuff.ID
			p = safely(func() {
				l0, f0 = rr[0].GetLeader(v), fx[0].GetLeader(v)
				for i := 1; i < n; i++ {
					if l := rr[i].GetLeader(v); l != l0 {
						r.Violation(fmt.Sprintf("round-robin disagreement n=%d", n), fmt.Sprintf("view %d: replica 1 says %d, replica %d says %d", v, l0, i+1, l), map[string]any{"n": n, "view": uint64(v)})
					}
					if l := fx[i].GetLeader(v); l != f0 {
						r.Violation(fmt.Sprintf("fixed disagreement n=%d", n), fmt.Sprintf("view %d", v), map[string]any{"n": n, "view": uint64(v)})
					}
				}
			})
			r.Evaluations++
			r.States++
			r.Transitions += int64(n)
			r.Nontrivial++
			if p != nil {
				r.Violation(fmt.Sprintf("stateless panic n=%d", n), fmt.Sprintf("view %d: %v", v, p), map[string]any{"n": n, "view": uint64(v)})
				continue
			}
			if l0 < 1 || int(l0) > n {
				r.Violation(fmt.Sprintf("round-robin unknown replica n=%d", n), fmt.Sprintf("view %d -> %d", v, l0), map[string]any{"n": n, "view": uint64(v)})
			}
			if f0 < 1 || int(f0) > n {
				r.Violation(fmt.Sprintf("fixed unknown replica n=%d", n), fmt.Sprintf("view %d -> %d", v, f0), map[string]any{"n": n, "view": uint64(v)})
			}
			// bijection on any n consecutive views (windows that do not cross a gap in the view list)
			if k == 0 || v != prev+1 {
				window = window[:0]
			}
			prev = v
			window = append(window, l0)
			if len(window) > n {
				window = window[1:]
			}
			if len(window) == n {
				seen := map[hotstuff.ID]bool{}
				for _, l := range window {
					seen[l] = true
				}
				if len(seen) != n {
					r.Violation(fmt.Sprintf("round-robin not a bijection n=%d", n), fmt.Sprintf("views %d..%d give leaders %v", uint64(v)-uint64(n)+1, v, window), map[string]any{"n": n, "view": uint64(v)})
				}
			}
		}
	}
	r.Sample("round-robin n=4: views 0..7 -> 1 2 3 4 1 2 3 4; every replica's instance agrees")
	// tree leader: for a family of trees, every replica's TreeBased instance names the root
	for n := 1; n <= 40; n++ {
		for bf := 2; bf <= 6; bf += 2 {
			for rot := 0; rot < n; rot++ {
				pos := make([]hotstuff.ID, n)
				for i := range pos {
					pos[i] = hotstuff.ID((i+rot)%n + 1)
				}
				for i := 0; i < n; i++ {
					id := hotstuff.ID(i + 1)
					cfg := core.NewRuntimeConfig(id, nil, core.WithKauriTree(tree.NewSimple(id, bf, pos)))
					for j := 1; j <= n; j++ {
						cfg.AddReplica(&hotstuff.ReplicaInfo{ID: hotstuff.ID(j)})
					}
					tl := leaderrotation.NewTreeBased(cfg)
					for _, v := range []hotstuff.View{0, 1, 7, 1 << 40, math.MaxUint64} {
						r.Evaluations++
						if l := tl.GetLeader(v); l != pos[0] {
							r.Violation("tree leader", fmt.Sprintf("n=%d bf=%d positions %v: replica %d names %d in view %d", n, bf, pos, id, l, v), map[string]any{"n": n, "bf": bf, "pos": pos})
						}
					}
				}
				r.States++
				r.Transitions += int64(n)
			}
		}
	}
	// (b) history-based schemes
	for _, n := range []int{4, 7, 10} {
		c16History(r, n)
	}
	r.Traces = r.Evaluations
	r.Assume("round-robin windows crossing the uint64 wrap-around 2^64-1 -> 0 are not checked (View cannot wrap in a run)")
	r.Explanation = "Each case queries independent leader-rotation instances built from the production constructors."
}

func fakeQC(b *hotstuff.Block, signers []hotstuff.ID) hotstuff.QuorumCert {
	sigs := make([]*crypto.EDDSASignature, len(signers))
	for i, id := range signers {
		sigs[i] = crypto.RestoreEDDSASignature([]byte{byte(id)}, id)
	}
	return hotstuff.NewQuorumCert(crypto.NewMulti(sigs...), b.View(), b.Hash())
}

func subsetsAtLeast(n, k int) [][]hotstuff.ID {
	var out [][]hotstuff.ID
	for m := 0; m < 1<<n; m++ {
		var s []hotstuff.ID
		for i := 0; i < n; i++ {
			if m&(1<<i) != 0 {
				s = append(s, hotstuff.ID(i+1))
			}
		}
		if len(s) >= k {
			out = append(out, s)
		}
	}
	return out
}

type rotInst struct {
	vs  *protocol.ViewStates
	car *leaderrotation.Carousel
	rep *leaderrotation.RepBased
}

func c16History(r *ev.Reporter, n int) {
	f := hotstuff.NumFaulty(n)
	q := hotstuff.QuorumSize(n)
	const chainLen = 3
	seeds := []int64{0, 1, 1 << 62}
	sets := subsetsAtLeast(n, q)
	propAlphabet := n
	if n > 7 {
		// larger clusters (f >= 3): proposers from {1,2,3,4}, a few signer sets that contain them
		propAlphabet = 4
		var keep [][]hotstuff.ID
		for _, s := range sets {
			if len(s) == q && s[0] == 1 && s[1] == 2 && s[2] == 3 && len(keep) < 4 {
				keep = append(keep, s)
			}
		}
		keep = append(keep, sets[len(sets)-1]) // all replicas
		sets = keep
		seeds = []int64{0, 1, 2, 3, 4, 5, 1 << 62}
	}
	mk := func(seed int64, k int) ([]rotInst, *fix.Cluster) {
		c := fix.NewCluster(k, crypto.NameEDDSA, fix.Opts{Extra: []core.RuntimeOption{core.WithSharedRandomSeed(seed)}})
		// the rotation only needs ReplicaCount()==n: add the remaining ids
		for _, cfg := range c.Cfgs {
			for j := k + 1; j <= n; j++ {
				cfg.AddReplica(&hotstuff.ReplicaInfo{ID: hotstuff.ID(j)})
			}
		}
		inst := make([]rotInst, k)
		for i := range inst {
			vs, err := protocol.NewViewStates(c.Chains[i], c.Auths[i])
			if err != nil {
				panic(err)
			}
			lg := &fix.NopLogger{}
			inst[i] = rotInst{vs, leaderrotation.NewCarousel(chainLen, c.Chains[i], vs, c.Cfgs[i], lg), leaderrotation.NewRepBased(chainLen, vs, c.Cfgs[i], lg)}
		}
		return inst, c
	}
	// chain of f+1 blocks above genesis: proposers vary over all ids, head QC signer set varies
	nprop := f + 1
	props := make([]hotstuff.ID, nprop)
	var recP func(k int, fn func())
	recP = func(k int, fn func()) {
		if k == nprop {
			fn()
			return
		}
		for id := 1; id <= propAlphabet; id++ {
			props[k] = hotstuff.ID(id)
			recP(k+1, fn)
		}
	}
	for _, seed := range seeds {
		recP(0, func() {
			for _, set := range sets {
				inst, c := mk(seed, 2)
				// build chain: b1 <- b2 ... each certified by `set` (only the head's matters)
				parent := hotstuff.GetGenesis()
				qc := fix.GenesisQC()
				var head *hotstuff.Block
				for k := 0; k < nprop; k++ {
					b := hotstuff.NewBlock(parent.Hash(), qc, fix.Batch(), hotstuff.View(k+1), props[k])
					c.StoreAll(b)
					qc = fakeQC(b, set)
					parent, head = b, b
				}
				// head's embedded QC certifies its parent; carousel reads head.QuorumCert().Signature()
				for _, in := range inst {
					in.vs.UpdateCommittedBlock(head)
				}
				// Every sequence of up to 5 operations {commit the next block of the chain, ask about view
				// a-1 / a / a+1 around the activation view a} on two long-lived instances (two replicas that
				// observe the same commits and ask the same questions). The property lets the answer depend
				// on the sequence of queries, so the oracle is: both instances give the same answer, the answer
				// is a configured replica, and whenever the carousel is active for the head committed at that
				// moment the answer signed that head's embedded certificate and proposed none of the last f
				// committed blocks.
				if n <= 7 {
					chain := []*hotstuff.Block{}
					for b := head; b != nil && b.View() > 0; {
						chain = append([]*hotstuff.Block{b}, chain...)
						pb, ok := c.Chains[0].LocalGet(b.Parent())
						if !ok {
							break
						}
						b = pb
					}
					depth := 5
					if n > 4 {
						depth = 4
					}
					ops := make([]int, 0, depth)
					var rec func()
					rec = func() {
						if len(ops) == depth {
							lg := &fix.NopLogger{}
							var vss [2]*protocol.ViewStates
							var long [2]*leaderrotation.Carousel
							for k := 0; k < 2; k++ {
								vs, err := protocol.NewViewStates(c.Chains[k], c.Auths[k])
								if err != nil {
									panic(err)
								}
								vss[k] = vs
								long[k] = leaderrotation.NewCarousel(chainLen, c.Chains[k], vs, c.Cfgs[k], lg)
							}
							next := 0
							for i, op := range ops {
								if op == 0 {
									if next < len(chain) {
										vss[0].UpdateCommittedBlock(chain[next])
										vss[1].UpdateCommittedBlock(chain[next])
										next++
									}
									continue
								}
								v := hotstuff.View(int(head.View()) + chainLen + op - 2)
								var got [2]hotstuff.ID
								desc := fmt.Sprintf("n=%d seed=%d proposers=%v headQCsigners=%v, ops %v (0=commit next block, 1..3 = ask view head+%d-1..+1)", n, seed, props, set, ops[:i+1], chainLen)
								if p := safely(func() { got[0], got[1] = long[0].GetLeader(v), long[1].GetLeader(v) }); p != nil {
									r.Violation(fmt.Sprintf("carousel panic n=%d", n), desc+fmt.Sprintf(": %v", p), nil)
									break
								}
								r.Transitions += 2
								if got[0] != got[1] {
									r.Violation(fmt.Sprintf("carousel disagreement after the same history n=%d", n), desc+fmt.Sprintf(": two replicas with the same commits and queries answer %d and %d for view %d", got[0], got[1], v), nil)
									break
								}
								if got[0] < 1 || int(got[0]) > n {
									r.Violation(fmt.Sprintf("carousel unknown replica n=%d", n), desc+fmt.Sprintf(": %d", got[0]), nil)
									break
								}
								if next > 0 {
									cur := chain[next-1]
									if sig := cur.QuorumCert().Signature(); sig != nil && cur.View() == v-chainLen {
										signer := false
										sig.Participants().ForEach(func(id hotstuff.ID) {
											if id == got[0] {
												signer = true
											}
										})
										recent := false
										for k := 0; k < f && next-1-k >= 0; k++ {
											if chain[next-1-k].Proposer() == got[0] {
												recent = true
											}
										}
										if !signer || recent {
											r.Violation(fmt.Sprintf("carousel picks non-candidate n=%d", n), desc+fmt.Sprintf(": active for the committed head of view %d, picked %d for view %d (signer of the head's certificate=%v, proposer of one of the last %d committed blocks=%v)", cur.View(), got[0], v, signer, f, recent), nil)
											break
										}
									}
								}
							}
							r.Evaluations++
							return
						}
						for op := 0; op < 4; op++ {
							ops = append(ops, op)
							rec()
							ops = ops[:len(ops)-1]
						}
					}
					rec()
				}
				lastAuthors := map[hotstuff.ID]bool{}
				for k := 0; k < f && k < nprop; k++ {
					lastAuthors[props[nprop-1-k]] = true
				}
				headSigners := map[hotstuff.ID]bool{}
				if head.QuorumCert().Signature() != nil {
					head.QuorumCert().Signature().Participants().ForEach(func(id hotstuff.ID) { headSigners[id] = true })
				}
				for dv := -2; dv <= 3; dv++ {
					v := hotstuff.View(int(head.View()) + chainLen + dv)
					var a, b hotstuff.ID
					p := safely(func() { a, b = inst[0].car.GetLeader(v), inst[1].car.GetLeader(v) })
					r.Evaluations++
					r.States++
					r.Transitions += 2
					r.Nontrivial++
					desc := fmt.Sprintf("n=%d seed=%d proposers=%v headQCsigners=%v view=%d", n, seed, props, set, v)
					if p != nil {
						r.Violation(fmt.Sprintf("carousel panic n=%d", n), desc+fmt.Sprintf(": %v", p), map[string]any{"case": desc})
						continue
					}
					if a != b {
						r.Violation(fmt.Sprintf("carousel disagreement n=%d", n), desc+fmt.Sprintf(": %d vs %d", a, b), map[string]any{"case": desc})
					}
					if a < 1 || int(a) > n {
						r.Violation(fmt.Sprintf("carousel unknown replica n=%d", n), desc+fmt.Sprintf(": %d", a), map[string]any{"case": desc})
					}
					active := len(headSigners) > 0 && head.View() == v-chainLen
					if active && (!headSigners[a] || lastAuthors[a]) {
						r.Violation(fmt.Sprintf("carousel picks non-candidate n=%d", n), desc+fmt.Sprintf(": picked %d (signer=%v recentProposer=%v)", a, headSigners[a], lastAuthors[a]), map[string]any{"case": desc})
					}
				}
			}
		})
	}
	r.Sample(fmt.Sprintf("carousel n=%d: head proposers=%v, head QC signers=%v, views head+1..head+6", n, props, sets[0]))
	// reputation: sequences of committed heads (signer sets) and queries; two instances must agree
	seqLen := 2
	if !r.Quick() {
		seqLen = 3
	}
	setsR := sets
	if n == 7 && r.Quick() {
		setsR = sets[:8]
	}
	if n > 7 {
		return // reputation: covered for n in {4,7}
	}
	for _, seed := range seeds {
		idx := make([]int, seqLen)
		var recS func(k int)
		recS = func(k int) {
			if k == seqLen {
				inst, c := mk(seed, 2)
				parent := hotstuff.GetGenesis()
				qc := fix.GenesisQC()
				var answers [2][]hotstuff.ID
				p := safely(func() {
					for step := 0; step <= seqLen; step++ {
						b := hotstuff.NewBlock(parent.Hash(), qc, fix.Batch(), hotstuff.View(step+1), hotstuff.ID(step%n+1))
						c.StoreAll(b)
						for _, in := range inst {
							in.vs.UpdateCommittedBlock(b)
						}
						for i, in := range inst {
							for dv := 0; dv < 3; dv++ {
								answers[i] = append(answers[i], in.rep.GetLeader(b.View()+chainLen+hotstuff.View(dv)))
							}
							// a repeated query must not change later answers differently on the two instances
							answers[i] = append(answers[i], in.rep.GetLeader(b.View()+chainLen))
						}
						if step < seqLen {
							qc = fakeQC(b, setsR[idx[step]])
						}
						parent = b
					}
				})
				r.Evaluations++
				r.States++
				r.Transitions += int64(2 * 4 * (seqLen + 1))
				r.Nontrivial++
				desc := fmt.Sprintf("n=%d seed=%d head-signer-sets=%v", n, seed, idx)
				if p != nil {
					r.Violation(fmt.Sprintf("reputation panic n=%d", n), desc+fmt.Sprintf(": %v", p), map[string]any{"case": desc})
				} else if fmt.Sprint(answers[0]) != fmt.Sprint(answers[1]) {
					r.Violation(fmt.Sprintf("reputation disagreement n=%d", n), desc+fmt.Sprintf(": %v vs %v", answers[0], answers[1]), map[string]any{"case": desc})
				}
				return
			}
			for i := range setsR {
				idx[k] = i
				recS(k + 1)
			}
		}
		recS(0)
	}
}
