package props

import (
	"strings"
	"context"
	"fmt"
	"time"

	"github.com/relab/hotstuff"
	"github.com/relab/hotstuff/core/eventloop"
	"github.com/relab/hotstuff/internal/proto/clientpb"
	"github.com/relab/hotstuff/protocol"
	"github.com/relab/hotstuff/protocol/consensus"
	"github.com/relab/hotstuff/security/blockchain"
	"github.com/relab/hotstuff/security/cert"
	"github.com/relab/hotstuff/security/crypto"
	"github.com/relab/hotstuff/server"
	"github.com/relab/hotstuff/zverif/cluster"
	"github.com/relab/hotstuff/zverif/dump"
	"github.com/relab/hotstuff/zverif/ev"
	"github.com/relab/hotstuff/zverif/fix"
	"github.com/relab/hotstuff/zverif/par"
)

// c06Chains: every committed chain of <= L blocks whose batches are drawn from a small command
// alphabet (so the same command appears in several committed blocks), committed block by block
// or in one jump through the real Committer, executed by the real ClientIO.
func c06Chains(r *ev.Reporter) {
	cmds := []*clientpb.Command{fix.Cmd(1, 1), fix.Cmd(1, 2), fix.Cmd(2, 1)}
	var batches [][]*clientpb.Command
	for _, a := range cmds {
		batches = append(batches, []*clientpb.Command{a})
	}
	for _, a := range cmds {
		for _, b := range cmds {
			batches = append(batches, []*clientpb.Command{a, b})
		}
	}
	L := 3
	if !r.Quick() {
		L = 4
	}
	nb := len(batches)
	total := 1
	for i := 0; i < L; i++ {
		total *= nb
	}
	par.Each(nb, func(first int) {
		var cnt int64
		idx := make([]int, L)
		idx[0] = first
		var rec func(k int)
		rec = func(k int) {
			if k == L {
				for _, jump := range []bool{false, true} {
					// hole: one block of the chain never reaches the replica and cannot be fetched (-1: none)
					for hole := -1; hole < L-1; hole++ {
						cnt++
						if msg := c06RunChain(batches, idx, jump, hole); msg != "" {
							if strings.HasPrefix(msg, "harness:") {
								ev.Broken("C06 chain part: %s", msg)
							}
							r.Violation("C06 chain: "+classify(msg), fmt.Sprintf("chain batches %v (indexes into %d batches over commands 1.1, 1.2, 2.1), commit-in-one-jump=%v, block withheld and not fetchable: %d: %s", idx, nb, jump, hole, msg), map[string]any{"batches": append([]int(nil), idx...), "jump": jump, "hole": hole})
						}
					}
				}
				return
			}
			for i := 0; i < nb; i++ {
				idx[k] = i
				rec(k + 1)
			}
		}
		rec(1)
		r.Count(cnt, cnt*int64(L), cnt, cnt)
	})
	r.Extra["chain_part"] = fmt.Sprintf("all %d chains of %d blocks over %d batches x {block-by-block, one jump} x {no block withheld, each of the first %d blocks withheld and not fetchable}", total, L, nb, L-1)
}

func c06RunChain(batches [][]*clientpb.Command, idx []int, jump bool, hole int) string {
	lg := &fix.NopLogger{}
	el := eventloop.New(lg, 1000)
	snd := &fix.Sender{ID: 1}
	chain := blockchain.New(el, lg, snd)
	fx := fix.NewCluster(1, crypto.NameEDDSA, fix.Opts{})
	auth := cert.NewAuthority(fx.Cfgs[0], chain, fx.Recs[0])
	vs, err := protocol.NewViewStates(chain, auth)
	if err != nil {
		panic(err)
	}
	cc := clientpb.NewCommandCache(1)
	cio := server.NewClientIO(el, lg, cc)
	cio.Stop() // never served; unregisters the gRPC server from the process-global channelz table (see node.New)
	ruler := &scriptRuler{}
	cm := consensus.NewCommitter(el, lg, chain, vs, ruler)
	parent := hotstuff.GetGenesis()
	var blocks []*hotstuff.Block
	for v, bi := range idx {
		b := hotstuff.NewBlock(parent.Hash(), hotstuff.NewQuorumCert(nil, parent.View(), parent.Hash()), &clientpb.Batch{Commands: batches[bi]}, hotstuff.View(2*(v+1)), 1)
		blocks = append(blocks, b)
		parent = b
	}
	// an abandoned sibling (view 3, child of the first block) carrying the never-committed command:
	// committing past it aborts its batch, which must not look like success to the waiting client
	sibling := hotstuff.NewBlock(blocks[0].Hash(), hotstuff.NewQuorumCert(nil, blocks[0].View(), blocks[0].Hash()), fix.Batch(fix.Cmd(2, 2)), 3, 2)
	chain.Store(sibling)
	// waiting clients: one real ExecCommand call per command of the alphabet plus one for a
	// command that is never committed; each call gets at most one outcome, success only after
	// the replica executed the command
	type outcome struct {
		id  clientpb.MessageID
		err error
	}
	waitCmds := []*clientpb.Command{fix.Cmd(1, 1), fix.Cmd(1, 2), fix.Cmd(2, 1), fix.Cmd(2, 2)}
	outc := make(chan outcome, 16)
	for _, c := range waitCmds {
		c := c
		sctx, _ := fix.NewServerCtx(context.Background())
		go func() {
			_, err := cio.ExecCommand(sctx, c)
			outc <- outcome{c.ID(), err}
		}()
	}
	awaiting := func() int {
		v, _ := dump.Field(cio, "awaitingCmds")
		if m, ok := v.(map[clientpb.MessageID]chan<- error); ok {
			// the map is only written under the ClientIO mutex by ExecCommand / Exec; reading its
			// length here happens while no handler runs
			return len(m)
		}
		return -1
	}
	for i := 0; awaiting() < len(waitCmds); i++ {
		if i > 600000 { // 30 s: a scheduling hiccup must not look like a verdict
			return "harness: ExecCommand callers did not register"
		}
		time.Sleep(50 * time.Microsecond)
	}
	got := map[clientpb.MessageID]int{}
	success := map[clientpb.MessageID]bool{}
	executed := map[clientpb.MessageID]bool{}
	unanswered := 0
	_ = unanswered
	collect := func(before int, executedNow map[clientpb.MessageID]bool) string {
		n := before - awaiting()
		for k := 0; k < n; k++ {
			select {
			case o := <-outc:
				got[o.id]++
				if got[o.id] > 1 {
					return fmt.Sprintf("waiting client of %v received a second outcome", o.id)
				}
				if o.err == nil {
					success[o.id] = true
					if !executedNow[o.id] && !executed[o.id] {
						return fmt.Sprintf("waiting client of %v was told success although the replica has not executed the command", o.id)
					}
				}
			case <-time.After(30 * time.Second):
				return "harness: an outcome was delivered to a waiting client but never returned by ExecCommand"
			}
		}
		return ""
	}
	var chainCmds []*clientpb.Command
	awaitBefore := awaiting()
	check := func(upTo int) string {
		chainCmds = chainCmds[:0]
		for _, b := range blocks[:upTo] {
			chainCmds = append(chainCmds, b.Commands().GetCommands()...)
		}
		list, ok := c06Explain(chainCmds, cio.CmdCount(), cio.Hash().Sum(nil))
		if !ok {
			return fmt.Sprintf("after committing %d blocks the application executed %d commands; executing the chain's %d commands once each in order gives another count or digest", upTo, cio.CmdCount(), len(chainCmds))
		}
		seen := map[clientpb.MessageID]bool{}
		now := map[clientpb.MessageID]bool{}
		for _, c := range list {
			if seen[c.ID()] {
				return fmt.Sprintf("command client=%d seq=%d executed twice", c.ClientID, c.SequenceNumber)
			}
			seen[c.ID()] = true
			if !executed[c.ID()] {
				now[c.ID()] = true
			}
		}
		if msg := collect(awaitBefore, now); msg != "" {
			return msg
		}
		for id := range now {
			executed[id] = true
			if !success[id] {
				unanswered++ // not required by the property (at most one outcome); counted for the evidence
			}
		}
		return ""
	}
	for i, b := range blocks {
		ruler.target = nil
		if !jump || i == len(blocks)-1 {
			ruler.target = b
		}
		if i == hole {
			continue // this block never arrives, and no peer serves it
		}
		awaitBefore = awaiting()
		if err := cm.TryCommit(b); err != nil && !(hole >= 0 && i > hole) {
			return "TryCommit: " + err.Error()
		}
		for el.Tick(context.Background()) {
		}
		if ruler.target != nil {
			// behind a hole nothing can be executed in chain order: the executed commands must still be
			// explained by the blocks before the hole
			upTo := i + 1
			if hole >= 0 && i > hole {
				// any prefix of the blocks before the hole is fine (a commit that fails at the hole may have
				// executed none or all of them); take the longest one that explains count and digest
				upTo = hole
				for k := hole; k >= 0; k-- {
					var cs []*clientpb.Command
					for _, pb := range blocks[:k] {
						cs = append(cs, pb.Commands().GetCommands()...)
					}
					if _, ok := c06Explain(cs, cio.CmdCount(), cio.Hash().Sum(nil)); ok {
						upTo = k
						break
					}
				}
			}
			if msg := check(upTo); msg != "" {
				return msg
			}
		}
	}
	return ""
}

// c06Explain: the executed list is the chain's commands with repeats removed, either by exact
// identity or by the per-client sequence-number watermark (both satisfy the property).
func c06Explain(chain []*clientpb.Command, count uint32, digest []byte) ([]*clientpb.Command, bool) {
	return cluster.ExplainExec(chain, count, digest)
}
