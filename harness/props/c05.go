package props

import (
	"fmt"
	"strings"
	"sync"
	"time"

	"github.com/relab/hotstuff"
	"github.com/relab/hotstuff/zverif/cluster"
	"github.com/relab/hotstuff/zverif/ev"
	"github.com/relab/hotstuff/zverif/par"
)

func init() { Registry["C05"] = c05 }

type c05Prefix struct {
	path    []string
	maxView hotstuff.View
}

func c05(r *ev.Reporter, _ []string) {
	r.Rule = "prefix set = every canonical state of the deviation-bounded exploration (deliveries out of order, loss, duplicates, timer expiries, twin equivocation) x every crash set of size <= f; from each, the deterministic synchronous suffix (quorum-only FIFO delivery, timers at quiescence, leaders from the quorum) must let every quorum member commit a new block before view heal+3*ChainLength+2; plus the fault-free 12-view lock-step run for fixed/round-robin leaders; distinct = (prefix state, crash set)"
	type run struct {
		cfg     cluster.Config
		bound   int
		maxPref int
		dur     time.Duration
	}
	var runs []run
	for _, rs := range cluster.RulesNames {
		if r.Quick() {
			runs = append(runs,
				run{cluster.Config{N: 4, Rules: rs, Horizon: 3, Timeouts: 4, Drops: true, Cache: 100}, 1, 700, 45 * time.Second},
				run{cluster.Config{N: 4, Rules: rs, Horizon: 3, Timeouts: 4, Drops: true, Twin: 3, Cache: 100}, 1, 300, 25 * time.Second},
			)
		} else {
			runs = append(runs,
				run{cluster.Config{N: 4, Rules: rs, Horizon: 5, Timeouts: 8, Drops: true, Dups: 1, Cache: 100}, 2, 20000, 20 * time.Minute},
				run{cluster.Config{N: 4, Rules: rs, Horizon: 5, Timeouts: 8, Drops: true, Twin: 3, Cache: 100}, 1, 8000, 10 * time.Minute},
				run{cluster.Config{N: 7, Rules: rs, Horizon: 3, Timeouts: 4, Drops: true, Cache: 100}, 1, 3000, 10 * time.Minute},
			)
		}
	}
	var bounds []string
	for _, ru := range runs {
		// 1. collect the prefix set
		var mu sync.Mutex
		var prefixes []c05Prefix
		ex := &cluster.Explorer{Cfg: ru.cfg, Bound: ru.bound, Deadline: time.Now().Add(ru.dur / 3)}
		ex.OnState = func(w *cluster.World, path []string) {
			var mv hotstuff.View
			for _, n := range w.Nodes {
				if n.VS.View() > mv {
					mv = n.VS.View()
				}
			}
			mu.Lock()
			if len(prefixes) < ru.maxPref {
				prefixes = append(prefixes, c05Prefix{append([]string(nil), path...), mv})
			}
			mu.Unlock()
		}
		ex.Run()
		if d := ex.Diverged.Load(); d != nil {
			ev.Broken("C05 prefix exploration diverged: %v", d)
		}
		desc := fmt.Sprintf("%s n=%d horizon=%d twin=%d deviations<=%d", ru.cfg.Rules, ru.cfg.N, ru.cfg.Horizon, ru.cfg.Twin, ru.bound)
		// 2. suffix from every prefix x crash set
		crashSets := []hotstuff.ID{0}
		for i := 1; i <= ru.cfg.N; i++ {
			if hotstuff.ID(i) != ru.cfg.Twin && ru.cfg.Twin == 0 {
				crashSets = append(crashSets, hotstuff.ID(i))
			}
		}
		deadline := time.Now().Add(ru.dur * 2 / 3)
		var ok, bad, skipped, capped int64
		var cmu sync.Mutex
		par.Each(len(prefixes), func(i int) {
			p := prefixes[i]
			for _, cr := range crashSets {
				if time.Now().After(deadline) {
					cmu.Lock()
					capped++
					cmu.Unlock()
					return
				}
				res := cluster.SyncSuffix(ru.cfg, p.path, p.maxView, cr)
				cmu.Lock()
				switch {
				case res.Skipped:
					skipped++
				case res.OK:
					ok++
				default:
					bad++
				}
				cmu.Unlock()
				if !res.OK && !res.Skipped {
					r.Violation(fmt.Sprintf("C05 %s: no new commit within the view bound after synchrony", ru.cfg.Rules),
						fmt.Sprintf("%s, crashed=%d, prefix [%s], heal view %d: %s", desc, cr, strings.Join(p.path, " | "), res.HealView, res.Detail),
						map[string]any{"config": desc, "crashed": cr, "prefix": p.path, "suffix": res.Trace})
				}
			}
		})
		r.Count(int64(len(prefixes)), ok+bad, ok+bad+skipped, ok+bad)
		b := fmt.Sprintf("%s: prefix_states=%d (exploration states=%d complete=%v) crash_sets=%d suffixes_ok=%d violated=%d not_replayable=%d not_run_time_cap=%d", desc, len(prefixes), ex.States, !ex.Stopped.Load(), len(crashSets), ok, bad, skipped, capped)
		bounds = append(bounds, b)
		fmt.Println(b)
		if capped > 0 || ex.Stopped.Load() || int64(len(prefixes)) < ex.States {
			r.Cap(desc + ": prefix set or suffix runs capped")
		}
	}
	// 3. fault-free lock-step runs
	for _, rs := range cluster.RulesNames {
		for _, lead := range []string{"round-robin", "fixed"} {
			cfg := cluster.Config{N: 4, Rules: rs, Cache: 100}
			if lead == "fixed" {
				cfg.Leader = func(hotstuff.View) hotstuff.ID { return 1 }
			}
			msg, w := cluster.FaultFree(cfg, 12)
			r.Count(1, int64(len(w.Trace)), 1, 1)
			if msg != "" {
				r.Violation(fmt.Sprintf("C05 %s: fault-free lock-step run", rs), fmt.Sprintf("%s leaders=%s, 12 views: %s", rs, lead, msg), map[string]any{"ruleset": rs, "leaders": lead})
			}
		}
	}
	r.Extra["runs"] = bounds
	r.Traces = r.Transitions
	r.Sample("chainedhotstuff n=4: prefix [D ProposeMsg 1>0 | X VoteMsg 0>2 | T 3], crashed=2 -> suffix led by {1,3,4} commits before view heal+11")
	r.Assume("the view bound is heal+3*ChainLength+2 where heal = highest view in the prefix state + 2 (so that the leader schedule of the prefix is unchanged)")
	r.Explanation = "Prefixes are real executions found by the explorer; each suffix is one deterministic real execution."
}
