package props

import (
	"encoding/json"
	"fmt"
	"os"
	"sort"
	"strings"
	"sync"
	"time"

	"github.com/relab/hotstuff"
	"github.com/relab/hotstuff/zverif/cluster"
	"github.com/relab/hotstuff/zverif/ev"
	"github.com/relab/hotstuff/zverif/par"
)

func init() { Registry["C05"] = c05 }

type c05Prefix struct {
	path    []string
	maxView hotstuff.View
}

// c05Replay re-runs the synchronous suffix of one recorded violation (replays/C05-*.json written by the
// prefix x suffix part): mc C05 quick --replay <file>. Exit 1 + VIOLATION if it still fails.
func c05IsSuffixReplay(file string) bool {
	raw, err := os.ReadFile(file)
	if err != nil {
		return false
	}
	var doc struct {
		Replay struct {
			Config string   `json:"config"`
			Prefix []string `json:"prefix"`
		} `json:"replay"`
	}
	return json.Unmarshal(raw, &doc) == nil && doc.Replay.Config != "" && len(doc.Replay.Prefix) > 0
}

func c05Replay(r *ev.Reporter, file string) {
	r.ReplayOnly = true
	raw, err := os.ReadFile(file)
	if err != nil {
		ev.Broken("C05 replay: %v", err)
	}
	var doc struct {
		Replay struct {
			Config  string   `json:"config"`
			Crashed int      `json:"crashed"`
			Prefix  []string `json:"prefix"`
		} `json:"replay"`
	}
	if err := json.Unmarshal(raw, &doc); err != nil {
		ev.Broken("C05 replay: %v", err)
	}
	var rs string
	var n, horizon, twin, dev int
	if _, err := fmt.Sscanf(doc.Replay.Config, "%s n=%d horizon=%d twin=%d deviations<=%d", &rs, &n, &horizon, &twin, &dev); err != nil {
		ev.Broken("C05 replay: cannot parse configuration %q: %v", doc.Replay.Config, err)
	}
	cfg := cluster.Config{N: n, Rules: rs, Horizon: hotstuff.View(horizon), Timeouts: 2 * horizon, Drops: true, Dups: 1, Twin: hotstuff.ID(twin), Cache: 100}
	w := cluster.New(cfg)
	var mv hotstuff.View
	for _, l := range doc.Replay.Prefix {
		if !w.Apply(l) {
			ev.Broken("C05 replay: prefix event %q is not enabled", l)
		}
	}
	for _, nd := range w.Nodes {
		if nd.VS.View() > mv {
			mv = nd.VS.View()
		}
	}
	res := cluster.SyncSuffix(cfg, doc.Replay.Prefix, mv, hotstuff.ID(doc.Replay.Crashed))
	r.Count(1, int64(res.Events), 1, 1)
	fmt.Printf("replay: ok=%v skipped=%v heal=%d detail=%s\n", res.OK, res.Skipped, res.HealView, res.Detail)
	if !res.OK && !res.Skipped {
		r.Violation(fmt.Sprintf("C05 %s: no new commit within the view bound after synchrony", rs),
			fmt.Sprintf("%s, crashed=%d, prefix [%s], heal view %d: %s", doc.Replay.Config, doc.Replay.Crashed, strings.Join(doc.Replay.Prefix, " | "), res.HealView, res.Detail),
			map[string]any{"config": doc.Replay.Config, "crashed": doc.Replay.Crashed, "prefix": doc.Replay.Prefix, "suffix": res.Trace})
	}
}

func c05(r *ev.Reporter, args []string) {
	if len(args) == 2 && args[0] == "--replay" && c05IsSuffixReplay(args[1]) {
		c05Replay(r, args[1])
		return
	} // (replay files of the other families, or of other shapes: the whole check is run again)
	r.Rule = "prefix set = every canonical state of the deviation-bounded exploration (deliveries out of order, loss, duplicates, timer expiries, twin equivocation) x every crash set of size <= f; from each, the deterministic synchronous suffix (quorum-only FIFO delivery, timers at quiescence, leaders from the quorum) must let every quorum member commit a new block before view heal+3*ChainLength+2; plus the fault-free 12-view lock-step run for fixed/round-robin leaders; plus the isolation family (one replica cut off for k views under every cyclic leader pattern of period 4, then re-joined under three leader rotations: all commit within 3k+3*ChainLength+2 views); distinct = (prefix state, crash set)"
	type run struct {
		cfg     cluster.Config
		bound   int
		maxPref int
		dur     time.Duration
		alt     func(string) bool // restriction of the deviations (nil: any event)
		altName string
	}
	// timers firing early and timeout messages getting lost, nothing else: the faults after which a
	// replica is left behind in a view whose certificate the others already hold
	timeoutFaults := func(l string) bool { return strings.HasPrefix(l, "T ") || strings.HasPrefix(l, "X TimeoutMsg") }
	var runs []run
	for _, rs := range cluster.RulesNames {
		if r.Quick() {
			runs = append(runs,
				run{cluster.Config{N: 4, Rules: rs, Horizon: 3, Timeouts: 4, Drops: true, Cache: 100}, 1, 700, 45 * time.Second, nil, ""},
				run{cluster.Config{N: 4, Rules: rs, Horizon: 3, Timeouts: 4, Drops: true, Twin: 3, Cache: 100}, 1, 300, 25 * time.Second, nil, ""},
				run{cluster.Config{N: 4, Rules: rs, Horizon: 3, Timeouts: 4, Drops: true, Cache: 100}, 2, 1500, 40 * time.Second, timeoutFaults, "early timers / lost timeout messages only"},
			)
		} else {
			runs = append(runs,
				run{cluster.Config{N: 4, Rules: rs, Horizon: 5, Timeouts: 8, Drops: true, Dups: 1, Cache: 100}, 2, 20000, 8 * time.Minute, nil, ""},
				run{cluster.Config{N: 4, Rules: rs, Horizon: 5, Timeouts: 8, Drops: true, Twin: 3, Cache: 100}, 1, 8000, 4 * time.Minute, nil, ""},
				run{cluster.Config{N: 7, Rules: rs, Horizon: 3, Timeouts: 4, Drops: true, Cache: 100}, 1, 3000, 4 * time.Minute, nil, ""},
				run{cluster.Config{N: 4, Rules: rs, Horizon: 4, Timeouts: 6, Drops: true, Cache: 100}, 3, 20000, 6 * time.Minute, timeoutFaults, "early timers / lost timeout messages only"},
			)
		}
	}
	var bounds []string
	for _, ru := range runs {
		// 1. collect the prefix set
		var mu sync.Mutex
		var prefixes []c05Prefix
		ex := &cluster.Explorer{Cfg: ru.cfg, Bound: ru.bound, Deadline: time.Now().Add(ru.dur / 3), Alt: ru.alt}
		ex.OnState = func(w *cluster.World, path []string) {
			var mv hotstuff.View
			for _, n := range w.Nodes {
				if n.VS.View() > mv {
					mv = n.VS.View()
				}
			}
			mu.Lock()
			if len(prefixes) < ru.maxPref {
				prefixes = append(prefixes, c05Prefix{append([]string(nil), path...), mv})
			}
			mu.Unlock()
		}
		ex.Run()
		if d := ex.Diverged.Load(); d != nil {
			ev.Broken("C05 prefix exploration diverged: %v", d)
		}
		desc := fmt.Sprintf("%s n=%d horizon=%d twin=%d deviations<=%d", ru.cfg.Rules, ru.cfg.N, ru.cfg.Horizon, ru.cfg.Twin, ru.bound)
		if ru.altName != "" {
			desc += " (" + ru.altName + ")"
		}
		// 2. suffix from every prefix x crash set
		crashSets := []hotstuff.ID{0}
		for i := 1; i <= ru.cfg.N; i++ {
			if hotstuff.ID(i) != ru.cfg.Twin && ru.cfg.Twin == 0 {
				crashSets = append(crashSets, hotstuff.ID(i))
			}
		}
		deadline := time.Now().Add(ru.dur * 2 / 3)
		var ok, bad, skipped, capped int64
		var cmu sync.Mutex
		par.Each(len(prefixes), func(i int) {
			p := prefixes[i]
			for _, cr := range crashSets {
				if time.Now().After(deadline) {
					cmu.Lock()
					capped++
					cmu.Unlock()
					return
				}
				res := cluster.SyncSuffix(ru.cfg, p.path, p.maxView, cr)
				cmu.Lock()
				switch {
				case res.Skipped:
					skipped++
				case res.OK:
					ok++
				default:
					bad++
				}
				cmu.Unlock()
				if !res.OK && !res.Skipped {
					r.Violation(fmt.Sprintf("C05 %s: no new commit within the view bound after synchrony", ru.cfg.Rules),
						fmt.Sprintf("%s, crashed=%d, prefix [%s], heal view %d: %s", desc, cr, strings.Join(p.path, " | "), res.HealView, res.Detail),
						map[string]any{"config": desc, "crashed": cr, "prefix": p.path, "suffix": res.Trace})
				}
			}
		})
		r.Count(int64(len(prefixes)), ok+bad, ok+bad+skipped, ok+bad)
		b := fmt.Sprintf("%s: prefix_states=%d (exploration states=%d complete=%v) crash_sets=%d suffixes_ok=%d violated=%d not_replayable=%d not_run_time_cap=%d", desc, len(prefixes), ex.States, !ex.Stopped.Load(), len(crashSets), ok, bad, skipped, capped)
		bounds = append(bounds, b)
		fmt.Println(b)
		if capped > 0 || ex.Stopped.Load() || int64(len(prefixes)) < ex.States {
			r.Cap(desc + ": prefix set or suffix runs capped")
		}
	}
	// 3. fault-free lock-step runs
	for _, rs := range cluster.RulesNames {
		for _, lead := range []string{"round-robin", "fixed"} {
			cfg := cluster.Config{N: 4, Rules: rs, Cache: 100}
			if lead == "fixed" {
				cfg.Leader = func(hotstuff.View) hotstuff.ID { return 1 }
			}
			msg, w := cluster.FaultFree(cfg, 12)
			r.Count(1, int64(len(w.Trace)), 1, 1)
			if msg != "" {
				r.Violation(fmt.Sprintf("C05 %s: fault-free lock-step run", rs), fmt.Sprintf("%s leaders=%s, 12 views: %s", rs, lead, msg), map[string]any{"ruleset": rs, "leaders": lead})
			}
		}
	}
	bounds = append(bounds, c05Partition(r)...)
	iso := c05Isolation(r)
	fmt.Println(iso[0])
	bounds = append(bounds, iso...)
	r.Extra["runs"] = bounds
	r.Traces = r.Transitions
	r.Sample("chainedhotstuff n=4: prefix [D ProposeMsg 1>0 | X VoteMsg 0>2 | T 3], crashed=2 -> suffix led by {1,3,4} commits before view heal+11")
	r.Assume("the view bound is heal+3*ChainLength+2 where heal = highest view in the prefix state + 2 (so that the leader schedule of the prefix is unchanged)")
	r.Explanation = "Prefixes are real executions found by the explorer; each suffix is one deterministic real execution."
}

// c05Isolation: the isolation family. One replica is cut off for k views whose leaders follow a
// cyclic pattern (every pattern of period <= 4 over the replicas, the isolated one included: its
// views time out), then all four replicas are connected again and led round-robin. Every replica
// has to commit a new block within the view bound after the heal.
func c05Isolation(r *ev.Reporter) []string {
	type job struct {
		rs       string
		pattern  []hotstuff.ID
		rotation []hotstuff.ID
		k        int
	}
	// leaders after the heal: all replicas in turn, or a quorum that contains the re-joined replica
	rotations := [][]hotstuff.ID{{1, 2, 3, 4}, {1, 2, 3}, {2, 3, 4}}
	ks := []int{4, 8, 12}
	ids := []hotstuff.ID{1, 2, 3}
	if !r.Quick() {
		ks = []int{2, 4, 6, 8, 10, 12, 16, 20}
		ids = []hotstuff.ID{1, 2, 3, 4}
	}
	var jobs []job
	for _, rs := range []string{"chainedhotstuff", "simplehotstuff"} {
		var rec func(p []hotstuff.ID)
		rec = func(p []hotstuff.ID) {
			if len(p) == 4 {
				for _, k := range ks {
					for _, rot := range rotations {
						jobs = append(jobs, job{rs, append([]hotstuff.ID(nil), p...), rot, k})
					}
				}
				return
			}
			for _, id := range ids {
				rec(append(p, id))
			}
		}
		rec(nil)
	}
	hist := map[int]int{}
	var mu sync.Mutex
	par.Each(len(jobs), func(i int) {
		j := jobs[i]
		const isolated = 3
		// View bound after the heal: the re-joined replica is k views behind, moves one view per
		// certificate it receives (C07) and is a failing leader of every fourth view until it has
		// caught up, so the bound is linear in k: 3*ChainLength+2 (as in the suffix runs) plus 3 views
		// per view of lag (measured on the unchanged tree: at most 2.5).
		cl := 3
		bound := 3*j.k + 3*cl + 2
		res := cluster.IsolationRun(cluster.Config{N: 4, Rules: j.rs, Cache: 100}, isolated, j.pattern, j.rotation, j.k, bound+1)
		mu.Lock()
		defer mu.Unlock()
		if res.Broken != "" { // no verdict for this run (a cap): the command stock ran out or the run could not continue
			r.Cap(fmt.Sprintf("isolation run %s pattern=%v rotation=%v k=%d abandoned: %s", j.rs, j.pattern, j.rotation, j.k, res.Broken))
			return
		}
		r.Count(1, int64(res.Events), 1, 1)
		worst := 0
		var late []string
		for id := hotstuff.ID(1); id <= 4; id++ {
			cv := res.CommitView[id]
			d := cv - int(res.HealView)
			if cv < 0 {
				d = 999
			}
			if d > worst {
				worst = d
			}
			if d > bound {
				late = append(late, fmt.Sprint(id))
			}
		}
		hist[worst]++
		if len(late) > 0 {
			tail := res.Trace
			if len(tail) > 60 {
				tail = tail[len(tail)-60:]
			}
			r.Violation(fmt.Sprintf("C05 %s: no new commit within the view bound after an isolated replica re-joined", j.rs),
				fmt.Sprintf("%s n=4, replica %d isolated for views 1..%d led cyclically by %v, then all connected and led by %v in turn, lock-step schedule: replicas [%s] have not committed a new block %d views after the heal (highest view %d)", j.rs, isolated, j.k, j.pattern, j.rotation, strings.Join(late, " "), bound, res.MaxView),
				map[string]any{"ruleset": j.rs, "isolated": isolated, "pattern": fmt.Sprint(j.pattern), "rotation": fmt.Sprint(j.rotation), "k": j.k, "last_events": tail})
		}
		if os.Getenv("VERIF_C05_TRACE") == fmt.Sprintf("%s %v %d", j.rs, j.pattern, j.k) {
			for i, l := range res.Trace {
				fmt.Printf("trace %4d %s\n", i, l)
			}
		}
		if os.Getenv("VERIF_C05_DEBUG") != "" {
			fmt.Printf("isolation %s pattern=%v rotation=%v k=%d: commit views %v heal=%d max=%d\n", j.rs, j.pattern, j.rotation, j.k, res.CommitView, res.HealView, res.MaxView)
		}
	})
	var keys []int
	for k := range hist {
		keys = append(keys, k)
	}
	sort.Ints(keys)
	var sb strings.Builder
	for _, k := range keys {
		fmt.Fprintf(&sb, "%d:%d ", k, hist[k])
	}
	return []string{fmt.Sprintf("isolation family (replica 3 cut off for k in %v views, every leader pattern of period 4 over %v, then led by each of %v in turn): %d runs; views after the heal until the last replica committed a new block -> number of runs: %s(999 = not within 3k+11 views)", ks, ids, rotations, len(jobs), sb.String())}
}

// c05Partition: the replicas are split two against two (no quorum on either side) while every
// replica's view timer fires 1..4 times, then all are connected again. A replica's timer is a
// one-shot timer: it can fire again only if the replica has re-armed it. Every replica has to commit
// a new block within 3*ChainLength+2 (+4 for the views that differ at the heal) views of the heal.
func c05Partition(r *ev.Reporter) []string {
	const bound = 3*3 + 2 + 4
	runs, worst := 0, 0
	for _, rs := range []string{"chainedhotstuff", "simplehotstuff"} {
		for _, mask := range []uint32{0b0011, 0b0101, 0b1001} {
			for rounds := 1; rounds <= 4; rounds++ {
				res := cluster.PartitionRun(cluster.Config{N: 4, Rules: rs, Cache: 100}, mask, rounds, bound)
				r.Count(1, int64(res.Events), 1, 1)
				runs++
				if res.Broken != "" {
					r.Cap(fmt.Sprintf("partition run %s mask=%04b rounds=%d abandoned: %s", rs, mask, rounds, res.Broken))
					continue
				}
				var late []string
				for id := hotstuff.ID(1); id <= 4; id++ {
					d := res.CommitView[id] - int(res.HealView)
					if res.CommitView[id] < 0 {
						late = append(late, fmt.Sprint(id))
					} else if d > worst {
						worst = d
					}
				}
				if len(late) > 0 {
					tail := res.Trace
					if len(tail) > 60 {
						tail = tail[len(tail)-60:]
					}
					r.Violation(fmt.Sprintf("C05 %s: no new commit within the view bound after a partition without quorum healed", rs),
						fmt.Sprintf("%s n=4, slots split %04b (two against two) while every view timer fired %d times, then all connected, lock-step schedule with one-shot timers: replicas [%s] have not committed a new block %d views after the heal (views reached: heal %d, highest %d; %d events)", rs, mask, rounds, strings.Join(late, " "), bound, res.HealView, res.MaxView, res.Events),
						map[string]any{"ruleset": rs, "mask": mask, "rounds": rounds, "last_events": tail})
				}
			}
		}
	}
	out := fmt.Sprintf("two-against-two partition family: %d runs (3 splits x 1..4 timer rounds x {chained, simple}); worst case %d views from the heal to the last replica's new commit", runs, worst)
	fmt.Println(out)
	return []string{out}
}
