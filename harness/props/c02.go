package props

import (
	"fmt"
	"sort"
	"strings"

	"github.com/relab/hotstuff"
	"github.com/relab/hotstuff/security/crypto"
	"github.com/relab/hotstuff/zverif/dump"
	"github.com/relab/hotstuff/zverif/ev"
	"github.com/relab/hotstuff/zverif/fix"
	"github.com/relab/hotstuff/zverif/par"
)

func init() { Registry["C02"] = c02 }

// sigEntry describes one component of a crafted quorum signature.
type sigEntry struct {
	label  hotstuff.ID // the signer the entry claims
	actual int         // 0-based index of the replica that produced it; -1 = empty bytes
	msg    []byte      // what was really signed
}

type c02Fix struct {
	c      *fix.Cluster
	n, q   int
	scheme string
	raw    map[string][]byte // cache of raw single signatures
}

func newC02Fix(n int, scheme string, cache uint) *c02Fix {
	return &c02Fix{c: fix.NewCluster(n, scheme, fix.Opts{Cache: cache, AggQC: true}), n: n, q: hotstuff.QuorumSize(n), scheme: scheme, raw: map[string][]byte{}}
}

func (f *c02Fix) rawSig(actual int, msg []byte) []byte {
	k := fmt.Sprintf("%d/%x", actual, msg)
	if b, ok := f.raw[k]; ok {
		return b
	}
	s := f.c.SignBytes(msg, actual)[0]
	b := s.ToBytes()
	f.raw[k] = b
	return b
}

// build assembles the signature object from entries; ok=false if the scheme cannot express it.
func (f *c02Fix) build(entries []sigEntry) (sig hotstuff.QuorumSignature, ok bool) {
	switch f.scheme {
	case crypto.NameEDDSA:
		s := make([]*crypto.EDDSASignature, len(entries))
		for i, e := range entries {
			var b []byte
			if e.actual >= 0 {
				b = f.rawSig(e.actual, e.msg)
			}
			s[i] = crypto.RestoreEDDSASignature(b, e.label)
		}
		return crypto.NewMulti(s...), true
	case crypto.NameECDSA:
		s := make([]*crypto.ECDSASignature, len(entries))
		for i, e := range entries {
			var b []byte
			if e.actual >= 0 {
				b = f.rawSig(e.actual, e.msg)
			}
			s[i] = crypto.RestoreECDSASignature(b, e.label)
		}
		return crypto.NewMulti(s...), true
	case crypto.NameBLS12:
		if len(entries) == 0 {
			return nil, false
		}
		seen := map[hotstuff.ID]bool{}
		parts := make([]hotstuff.QuorumSignature, 0, len(entries))
		for _, e := range entries {
			if e.actual < 0 || seen[e.label] {
				return nil, false
			}
			seen[e.label] = true
			var bf crypto.Bitfield
			bf.Add(e.label)
			p, err := crypto.RestoreBLS12AggregateSignature(f.rawSig(e.actual, e.msg), bf)
			if err != nil {
				return nil, false
			}
			parts = append(parts, p)
		}
		if len(parts) == 1 {
			return parts[0], true
		}
		s, err := f.c.Auths[0].Combine(parts...)
		if err != nil {
			return nil, false
		}
		return s, true
	}
	return nil, false
}

// genuine returns the distinct configured labels whose entry is a real signature by that very
// replica over exactly want.
func (f *c02Fix) genuine(entries []sigEntry, want func(label hotstuff.ID) []byte) map[hotstuff.ID]bool {
	g := map[hotstuff.ID]bool{}
	if f.scheme == crypto.NameBLS12 {
		// an aggregate is the sum of its parts: it is a valid signature of the claimed set iff the
		// replicas that really signed are exactly the claimed ones (labels are not per-entry) and
		// every part is over the right message.
		act := map[hotstuff.ID]int{}
		for _, e := range entries {
			if e.actual < 0 {
				return g
			}
			act[hotstuff.ID(e.actual+1)]++
		}
		for _, e := range entries {
			w := want(e.label)
			if act[e.label] != 1 || int(e.label) > f.n || w == nil || string(w) != string(e.msg) {
				return map[hotstuff.ID]bool{}
			}
		}
		for _, e := range entries {
			g[e.label] = true
		}
		return g
	}
	for _, e := range entries {
		if e.actual < 0 || int(e.label) != e.actual+1 || int(e.label) > f.n {
			continue
		}
		w := want(e.label)
		if w != nil && string(w) == string(e.msg) {
			g[e.label] = true
		}
	}
	return g
}

func descEntries(es []sigEntry, right func(hotstuff.ID) []byte) string {
	var sb []string
	for _, e := range es {
		switch {
		case e.actual < 0:
			sb = append(sb, fmt.Sprintf("empty@%d", e.label))
		case int(e.label) == e.actual+1 && string(right(e.label)) == string(e.msg):
			sb = append(sb, fmt.Sprintf("ok(%d)", e.label))
		case int(e.label) == e.actual+1:
			sb = append(sb, fmt.Sprintf("foreign-msg(%d)", e.label))
		default:
			sb = append(sb, fmt.Sprintf("sig-of-%d-labelled-%d", e.actual+1, e.label))
		}
	}
	return "[" + strings.Join(sb, " ") + "]"
}

type c02Stats struct {
	cases, accepted, rejected, panics, distinct int64
}

// verify2 runs the verdict function on a cold and then a warm cache at the verifier.
func verify2(fn func() error) (acc [2]bool, panicked bool) {
	for i := 0; i < 2; i++ {
		var err error
		if p := safely(func() { err = fn() }); p != nil {
			panicked = true
			acc[i] = false
			continue
		}
		acc[i] = err == nil
	}
	return
}

func (f *c02Fix) label() string { return fmt.Sprintf("%s n=%d", f.scheme, f.n) }

// slotAlphabet is the per-slot descriptor alphabet for the exhaustive small-n part.
func (f *c02Fix) slotAlphabet(right, other []byte) []sigEntry {
	var a []sigEntry
	for i := 0; i < f.n; i++ {
		a = append(a, sigEntry{hotstuff.ID(i + 1), i, right})
	}
	a = append(a, sigEntry{1, 0, other}) // replica 1 over another message
	if f.n >= 2 {
		a = append(a, sigEntry{2, 0, right}) // replica 1's signature labelled 2
	}
	a = append(a, sigEntry{hotstuff.ID(f.n + 1), 0, right}) // unknown signer
	a = append(a, sigEntry{hotstuff.ID(min(3, f.n)), -1, nil}) // empty signature bytes
	return a
}

// forEachSeq enumerates all sequences over alpha of length 0..maxLen.
func forEachSeq(alpha []sigEntry, maxLen int, fn func([]sigEntry)) {
	var cur []sigEntry
	var rec func()
	rec = func() {
		fn(cur)
		if len(cur) == maxLen {
			return
		}
		for _, e := range alpha {
			cur = append(cur, e)
			rec()
			cur = cur[:len(cur)-1]
		}
	}
	rec()
}

func c02(r *ev.Reporter, _ []string) {
	r.Rule = "certificates built from signature descriptors {valid(i), foreign-message(i), i's signature labelled j, unknown signer, empty}: all descriptor sequences up to length q+1 for n<=4 (Multi schemes) / all distinct-label subsets (BLS), x claimed view/hash {true, relabelled}; for larger n all honest subsets of size q-1,q,n plus all single and double structural mutations; QC, TC, AggQC (+high QC) and proposals via VerifyAnyQC; verified by a replica that did not build it, cold and warm cache; BLS rogue-key registration (Byzantine replica registers x*G minus the other keys with every kind of announced proof of possession, forged same-message aggregate naming all replicas); oracle = signatures genuine by construction; distinct = distinct (config,certificate) cases"
	type cfg struct {
		scheme string
		n      int
		cache  uint
	}
	var cfgs []cfg
	smallN := []int{1, 2, 3, 4}
	bigN := []int{7}
	caches := []uint{0, 1, 8}
	if !r.Quick() {
		bigN = []int{5, 6, 7, 8, 9, 10, 11, 12, 13}
	}
	for _, sch := range []string{crypto.NameEDDSA, crypto.NameECDSA, crypto.NameBLS12} {
		for _, n := range append(append([]int{}, smallN...), bigN...) {
			for _, ca := range caches {
				if sch == crypto.NameBLS12 && r.Quick() && (n > 4 || ca == 1) {
					continue
				}
				if sch == crypto.NameBLS12 && n > 7 {
					continue
				}
				cfgs = append(cfgs, cfg{sch, n, ca})
			}
		}
	}
	var tot c02Stats
	par.Each(len(cfgs), func(i int) {
		c := cfgs[i]
		st := c02Config(r, c.scheme, c.n, c.cache, c.n <= 4)
		r.Count(st.cases, st.cases*2, st.cases*2, st.distinct)
		r.Count(0, 0, 0, 0)
		// accumulate
		tot.add(r, st)
	})
	r.Extra["bls_rogue_key_registration_cases"] = c02Rogue(r)
	r.Extra["accepted"] = tot.accepted
	r.Extra["rejected"] = tot.rejected
	r.Extra["panics_seen_treated_as_reject_reported_under_C10"] = tot.panics
	r.Extra["configs"] = len(cfgs)
	r.Traces = r.Evaluations
	r.Sample("eddsa n=4 QC [ok(1) ok(1) ok(1)] claimed view/hash true -> must be rejected (one distinct signer)")
	r.Sample("ecdsa n=4 QC [ok(1) ok(2) ok(3)] claimed view+5 -> must be rejected (view is part of the certified content)")
	r.Sample("bls12 n=4 AggQC {1:genesis 2:QC(A) 3:QC(B)} -> accepted, high QC = QC(B)")
	r.Explanation = "Every case is verified by the real cert.Authority of a replica that did not assemble it; validity of each signature entry is known by construction (who signed which bytes)."
}

var c02mu = make(chan struct{}, 1)

func (t *c02Stats) add(_ *ev.Reporter, s c02Stats) {
	c02mu <- struct{}{}
	t.cases += s.cases
	t.accepted += s.accepted
	t.rejected += s.rejected
	t.panics += s.panics
	t.distinct += s.distinct
	<-c02mu
}

func c02Config(r *ev.Reporter, scheme string, n int, cache uint, exhaustive bool) (st c02Stats) {
	f := newC02Fix(n, scheme, cache)
	c := f.c
	q := f.q
	ver := c.Auths[n-1] // the verifier did not build the certificates
	bA := hotstuff.NewBlock(hotstuff.GetGenesis().Hash(), fix.GenesisQC(), fix.Batch(fix.Cmd(1, 1)), 1, 1)
	bB := hotstuff.NewBlock(hotstuff.GetGenesis().Hash(), fix.GenesisQC(), fix.Batch(fix.Cmd(1, 2)), 2, 1)
	c.StoreAll(bA)
	c.StoreAll(bB)
	tag := fmt.Sprintf("%s n=%d cache=%d", scheme, n, cache)
	report := func(kind, class, desc string) {
		r.Violation(fmt.Sprintf("C02 %s %s: %s", kind, scheme, class), tag+" "+desc, map[string]any{"config": tag, "kind": kind, "case": desc})
	}
	tally := func(acc [2]bool, pan bool) {
		st.cases++
		st.distinct++
		if pan {
			st.panics++
		}
		if acc[0] || acc[1] {
			st.accepted++
		} else {
			st.rejected++
		}
	}

	// ---- QC ----
	type claim struct {
		name string
		view hotstuff.View
		blk  *hotstuff.Block
	}
	claims := []claim{{"true", bA.View(), bA}, {"view+5", bA.View() + 5, bA}, {"view=max", ^hotstuff.View(0), bA}, {"hash-of-B", bA.View(), bB}, {"B-true", bB.View(), bB}}
	checkQC := func(entries []sigEntry, cl claim, honest bool, viaAny bool) {
		sig, ok := f.build(entries)
		if !ok {
			return
		}
		qc := hotstuff.NewQuorumCert(sig, cl.view, cl.blk.Hash())
		want := func(hotstuff.ID) []byte {
			if cl.view != cl.blk.View() {
				return nil // the claimed view is part of the certified content
			}
			return cl.blk.ToBytes()
		}
		g := f.genuine(entries, want)
		kind := "QC"
		fn := func() error { return ver.VerifyQuorumCert(qc) }
		if viaAny {
			kind = "proposal"
			blk := hotstuff.NewBlock(cl.blk.Hash(), qc, fix.Batch(), cl.view+1, 1)
			fn = func() error { return ver.VerifyAnyQC(&hotstuff.ProposeMsg{ID: 1, Block: blk}) }
		}
		// verification must not modify the objects it is given: signature and public key objects are
		// shared between concurrent verifications (checked where points are normalised: BLS)
		before := ""
		if scheme == crypto.NameBLS12 {
			before = dump.String(sig, nil) + dump.Fields(c.Cfgs[n-1], nil, "replicas")
		}
		acc, pan := verify2(fn)
		tally(acc, pan)
		if before != "" && before != dump.String(sig, nil)+dump.Fields(c.Cfgs[n-1], nil, "replicas") {
			report(kind, "verification modified the signature or public key objects it was given", fmt.Sprintf("%s: the in-memory form of the signature / the verifier's public keys changed during verification", descEntries(entries, func(hotstuff.ID) []byte { return bA.ToBytes() })))
		}
		desc := fmt.Sprintf("%s %s claimed=%s", kind, descEntries(entries, func(hotstuff.ID) []byte { return bA.ToBytes() }), cl.name)
		for i, a := range acc {
			if a && len(g) < q {
				cls := "accepted without a quorum of distinct valid signatures"
				if cl.view != cl.blk.View() {
					cls = "accepted with a claimed view different from the block's view"
				}
				report(kind, cls, fmt.Sprintf("%s (attempt %d): accepted with %d genuine distinct signers %v, quorum %d", desc, i+1, len(g), keysOf(g), q))
			}
			if !a && honest && n >= 2 {
				report(kind, "honest certificate rejected", fmt.Sprintf("%s (attempt %d): rejected", desc, i+1))
			}
		}
	}
	right, other := bA.ToBytes(), bB.ToBytes()
	if exhaustive && scheme != crypto.NameBLS12 {
		alpha := f.slotAlphabet(right, other)
		forEachSeq(alpha, q+1, func(es []sigEntry) {
			for ci, cl := range claims[:4] {
				checkQC(es, cl, false, ci == 0 && len(es) == q)
			}
		})
	} else if exhaustive {
		// BLS: all subsets of the alphabet with distinct labels, up to size q+1
		alpha := f.slotAlphabet(right, other)
		alpha = alpha[:len(alpha)-1] // no empty entries in an aggregate
		for m := 1; m < 1<<len(alpha); m++ {
			var es []sigEntry
			for i := range alpha {
				if m&(1<<i) != 0 {
					es = append(es, alpha[i])
				}
			}
			if len(es) > q+1 {
				continue
			}
			for _, cl := range claims[:4] {
				checkQC(es, cl, false, false)
			}
		}
	}
	// honest subsets and structural mutations (all n)
	honestSet := func(idx []int, msg []byte) []sigEntry {
		es := make([]sigEntry, len(idx))
		for k, i := range idx {
			es[k] = sigEntry{hotstuff.ID(i + 1), i, msg}
		}
		return es
	}
	subsets := func(k int) [][]int {
		var out [][]int
		var cur []int
		var rec func(start int)
		rec = func(start int) {
			if len(cur) == k {
				out = append(out, append([]int(nil), cur...))
				return
			}
			for i := start; i < n; i++ {
				cur = append(cur, i)
				rec(i + 1)
				cur = cur[:len(cur)-1]
			}
		}
		rec(0)
		return out
	}
	sizes := []int{q - 1, q, n}
	for _, k := range sizes {
		if k < 1 || (scheme == crypto.NameBLS12 && n > 4 && k != q) {
			continue
		}
		subs := subsets(k)
		if scheme == crypto.NameBLS12 && len(subs) > 8 {
			subs = subs[:8]
		}
		for _, idx := range subs {
			checkQC(honestSet(idx, right), claims[0], k >= q, false)
		}
	}
	type mut struct {
		name string
		f    func(es []sigEntry, cl *claim) []sigEntry
	}
	muts := []mut{
		{"repeat-signer", func(es []sigEntry, _ *claim) []sigEntry { es[len(es)-1] = es[0]; return es }},
		{"swap-labels", func(es []sigEntry, _ *claim) []sigEntry {
			if len(es) >= 2 {
				es[0].label, es[1].label = es[1].label, es[0].label
			}
			return es
		}},
		{"foreign-message", func(es []sigEntry, _ *claim) []sigEntry { es[0].msg = other; return es }},
		{"relabel-view", func(es []sigEntry, cl *claim) []sigEntry { cl.view += 5; cl.name = "view+5"; return es }},
		{"relabel-hash", func(es []sigEntry, cl *claim) []sigEntry { cl.blk = bB; cl.name = "hash-of-B"; return es }},
		{"drop-one", func(es []sigEntry, _ *claim) []sigEntry { return es[:len(es)-1] }},
		{"unknown-signer", func(es []sigEntry, _ *claim) []sigEntry { es[0].label = hotstuff.ID(n + 1); return es }},
		{"empty-signature", func(es []sigEntry, _ *claim) []sigEntry { es[0].actual = -1; return es }},
		{"append-duplicate", func(es []sigEntry, _ *claim) []sigEntry { return append(es, es[0]) }},
		{"all-one-signer", func(es []sigEntry, _ *claim) []sigEntry {
			for i := range es {
				es[i] = es[0]
			}
			return es
		}},
	}
	base := fix.Range(q)
	for i := range muts {
		for j := i; j < len(muts); j++ {
			es := honestSet(base, right)
			cl := claims[0]
			es = muts[i].f(es, &cl)
			if j != i && len(es) > 0 {
				es = muts[j].f(es, &cl)
			}
			if len(es) == 0 {
				continue
			}
			checkQC(es, cl, false, (i+j)%3 == 0)
		}
	}
	// signature object variants: nil, typed nil, empty
	for _, cl := range claims[:2] {
		for vi, sig := range []hotstuff.QuorumSignature{nil, crypto.Multi[*crypto.EDDSASignature](nil), crypto.NewMulti[*crypto.ECDSASignature]()} {
			qc := hotstuff.NewQuorumCert(sig, cl.view, cl.blk.Hash())
			acc, pan := verify2(func() error { return ver.VerifyQuorumCert(qc) })
			tally(acc, pan)
			if acc[0] || acc[1] {
				report("QC", "accepted without a quorum of distinct valid signatures", fmt.Sprintf("QC with signature-object variant %d claimed=%s accepted", vi, cl.name))
			}
		}
	}

	// ---- TC ----
	v5, v6 := hotstuff.View(5).ToBytes(), hotstuff.View(6).ToBytes()
	checkTC := func(entries []sigEntry, claimed hotstuff.View, honest bool) {
		sig, ok := f.build(entries)
		if !ok {
			return
		}
		tc := hotstuff.NewTimeoutCert(sig, claimed)
		g := f.genuine(entries, func(hotstuff.ID) []byte { return claimed.ToBytes() })
		acc, pan := verify2(func() error { return ver.VerifyTimeoutCert(tc) })
		tally(acc, pan)
		desc := fmt.Sprintf("TC %s claimed-view=%d", descEntries(entries, func(hotstuff.ID) []byte { return v5 }), claimed)
		for i, a := range acc {
			if a && len(g) < q {
				report("TC", "accepted without a quorum of distinct valid signatures", fmt.Sprintf("%s (attempt %d): accepted with %d genuine distinct signers, quorum %d", desc, i+1, len(g), q))
			}
			if !a && honest && n >= 2 {
				report("TC", "honest certificate rejected", fmt.Sprintf("%s (attempt %d): rejected", desc, i+1))
			}
		}
	}
	if exhaustive && scheme != crypto.NameBLS12 {
		forEachSeq(f.slotAlphabet(v5, v6), q+1, func(es []sigEntry) {
			checkTC(es, 5, false)
			checkTC(es, 6, false)
		})
	}
	for _, k := range sizes {
		if k < 1 || (scheme == crypto.NameBLS12 && k != q) {
			continue
		}
		subs := subsets(k)
		if scheme == crypto.NameBLS12 && len(subs) > 6 {
			subs = subs[:6]
		}
		for _, idx := range subs {
			checkTC(honestSet(idx, v5), 5, k >= q)
			checkTC(honestSet(idx, v5), 6, false)
		}
	}
	for i := range muts {
		es := honestSet(base, v5)
		cl := claim{view: 5}
		es = muts[i].f(es, &cl)
		if len(es) == 0 {
			continue
		}
		// for a TC the "foreign message" is another view; relabel-hash does not apply
		for k := range es {
			if string(es[k].msg) == string(other) {
				es[k].msg = v6
			}
		}
		checkTC(es, cl.view, false)
	}

	// ---- AggQC ----
	c02Agg(r, f, tag, bA, bB, &st, tally, exhaustive)

	// ---- completeness through the real assembly API ----
	if n >= 2 {
		sizesC := []int{q, n}
		for _, k := range sizesC {
			subs := subsets(k)
			if len(subs) > 40 {
				subs = subs[:40]
			}
			if scheme == crypto.NameBLS12 && len(subs) > 4 {
				subs = subs[:4]
			}
			for _, idx := range subs {
				var pcs []hotstuff.PartialCert
				var tos []hotstuff.TimeoutMsg
				for _, i := range idx {
					pc, err := c.Auths[i].CreatePartialCert(bA)
					if err != nil {
						report("QC", "honest assembly failed", err.Error())
						continue
					}
					pcs = append(pcs, pc)
					tm := hotstuff.TimeoutMsg{ID: hotstuff.ID(i + 1), View: 5, SyncInfo: hotstuff.NewSyncInfoWith(fix.GenesisQC())}
					tm.ViewSignature = c.SignBytes(hotstuff.View(5).ToBytes(), i)[0]
					tm.MsgSignature = c.SignBytes(tm.ToBytes(), i)[0]
					tos = append(tos, tm)
				}
				builder := c.Auths[idx[0]]
				qc, err := builder.CreateQuorumCert(bA, pcs)
				tc, err2 := builder.CreateTimeoutCert(5, tos)
				agg, err3 := builder.CreateAggregateQC(5, tos)
				if err != nil || err2 != nil || err3 != nil {
					report("assembly", "honest assembly failed", fmt.Sprintf("signers %v: %v %v %v", idx, err, err2, err3))
					continue
				}
				for vi, a := range c.Auths {
					st.cases += 3
					if e := a.VerifyQuorumCert(qc); e != nil {
						report("QC", "honest certificate rejected", fmt.Sprintf("QC by signers %v rejected at replica %d: %v", idx, vi+1, e))
					}
					if e := a.VerifyTimeoutCert(tc); e != nil {
						report("TC", "honest certificate rejected", fmt.Sprintf("TC by signers %v rejected at replica %d: %v", idx, vi+1, e))
					}
					if _, e := a.VerifyAggregateQC(agg); e != nil {
						report("AggQC", "honest certificate rejected", fmt.Sprintf("AggQC by signers %v rejected at replica %d: %v", idx, vi+1, e))
					}
				}
			}
		}
	}
	return st
}

// c02Agg enumerates aggregate certificates.
func c02Agg(r *ev.Reporter, f *c02Fix, tag string, bA, bB *hotstuff.Block, st *c02Stats, tally func([2]bool, bool), exhaustive bool) {
	c, n, q := f.c, f.n, f.q
	ver := c.Auths[n-1]
	report := func(class, desc string) {
		r.Violation(fmt.Sprintf("C02 AggQC %s: %s", f.scheme, class), tag+" "+desc, map[string]any{"config": tag, "kind": "AggQC", "case": desc})
	}
	if n < 2 {
		return
	}
	// attested QC choices
	type qcChoice struct {
		name  string
		qc    hotstuff.QuorumCert
		valid bool
	}
	allq := fix.Range(q)
	qcA := c.QC(bA, allq...)
	qcB := c.QC(bB, allq...)
	var sub hotstuff.QuorumCert
	if q >= 2 {
		sub = c.QC(bB, fix.Range(q-1)...)
	} else {
		sub = hotstuff.NewQuorumCert(nil, bB.View(), bB.Hash())
	}
	relab := hotstuff.NewQuorumCert(qcA.Signature(), 9, bA.Hash())
	choices := []qcChoice{{"genesis", fix.GenesisQC(), true}, {"QC(A,v1)", qcA, true}, {"QC(B,v2)", qcB, true}, {"subquorum(B)", sub, false}, {"QC(A)relabelled-v9", relab, false},
		{"genesis-relabelled-v9", hotstuff.NewQuorumCert(nil, 9, hotstuff.GetGenesis().Hash()), false}}
	// the signature-less certificate of the genesis block stands for view 0 only
	for _, v := range []hotstuff.View{0, 1, 9, 1<<64 - 1} {
		gq := hotstuff.NewQuorumCert(nil, v, hotstuff.GetGenesis().Hash())
		acc, pan := verify2(func() error { return ver.VerifyQuorumCert(gq) })
		tally(acc, pan)
		for attempt, a := range acc { // cold and warm
			if a != (v == 0) && !pan {
				report("genesis QC", fmt.Sprintf("QC{no signature, view %d, genesis block} (attempt %d): accepted=%v", v, attempt+1, a))
			}
		}
	}
	type aggMut int
	const (
		mNone aggMut = iota
		mDropSig
		mDupSig
		mSigOtherView
		mRelabelView
		mSigOverOtherQC
		nMut
	)
	mutName := []string{"none", "drop-one-signature", "duplicate-signature", "signature-over-other-view", "claimed-view+1", "signature-over-another-qc"}
	check := func(ids []int, pick []int, m aggMut) {
		const aggView = hotstuff.View(7)
		claimed := aggView
		if m == mRelabelView {
			claimed = aggView + 1
		}
		qcs := map[hotstuff.ID]hotstuff.QuorumCert{}
		var entries []sigEntry
		wantMsg := map[hotstuff.ID][]byte{}
		for k, i := range ids {
			id := hotstuff.ID(i + 1)
			ch := choices[pick[k]]
			qcs[id] = ch.qc
			signedView := aggView
			signedQC := ch.qc
			if m == mSigOtherView && k == 0 {
				signedView = aggView + 3
			}
			if m == mSigOverOtherQC && k == 0 {
				signedQC = choices[(pick[k]+1)%3].qc
			}
			msg := hotstuff.TimeoutMsg{ID: id, View: signedView, SyncInfo: hotstuff.NewSyncInfoWith(signedQC)}.ToBytes()
			wantMsg[id] = hotstuff.TimeoutMsg{ID: id, View: claimed, SyncInfo: hotstuff.NewSyncInfoWith(ch.qc)}.ToBytes()
			entries = append(entries, sigEntry{id, i, msg})
		}
		switch m {
		case mDropSig:
			entries = entries[:len(entries)-1]
		case mDupSig:
			entries = append(entries, entries[0])
		}
		sig, ok := f.build(entries)
		if !ok {
			return
		}
		agg := hotstuff.NewAggregateQC(qcs, sig, claimed)
		g := f.genuine(entries, func(l hotstuff.ID) []byte { return wantMsg[l] })
		var high hotstuff.QuorumCert
		acc, pan := verify2(func() error {
			h, err := ver.VerifyAggregateQC(agg)
			high = h
			return err
		})
		tally(acc, pan)
		var names []string
		for k, i := range ids {
			names = append(names, fmt.Sprintf("%d:%s", i+1, choices[pick[k]].name))
		}
		desc := fmt.Sprintf("AggQC{%s} mutation=%s", strings.Join(names, " "), mutName[m])
		for i, a := range acc {
			if a && len(g) < q {
				report("accepted without a quorum of distinct valid signatures", fmt.Sprintf("%s (attempt %d): accepted with %d genuine distinct signers, quorum %d", desc, i+1, len(g), q))
			}
		}
		honest := m == mNone && len(ids) >= q
		if honest && !(acc[0] && acc[1]) {
			// an honest signer set may attest invalid QCs only if Byzantine; all-valid attestations must verify
			allValid := true
			for k := range ids {
				if !choices[pick[k]].valid {
					allValid = false
				}
			}
			if allValid {
				report("honest certificate rejected", desc)
			}
		}
		if acc[1] && len(g) >= q {
			// high QC = highest-view valid QC among the attested ones
			best := -1
			for k := range ids {
				ch := choices[pick[k]]
				if ch.valid && (best < 0 || ch.qc.View() > choices[best].qc.View()) {
					best = pick[k]
				}
			}
			if best >= 0 && (high.View() != choices[best].qc.View() || high.BlockHash() != choices[best].qc.BlockHash()) {
				report("wrong high QC", fmt.Sprintf("%s: reported high QC view=%d, highest valid attested QC is %s", desc, high.View(), choices[best].name))
			}
		}
	}
	// signer sets x per-signer QC choice x mutation
	maxSets := 1 << n
	for mask := 1; mask < maxSets; mask++ {
		var ids []int
		for i := 0; i < n; i++ {
			if mask&(1<<i) != 0 {
				ids = append(ids, i)
			}
		}
		if len(ids) < q-1 || len(ids) > q+1 {
			continue
		}
		if !exhaustive && (len(ids) != q || mask&1 == 0) {
			continue
		}
		if f.scheme == crypto.NameBLS12 && (len(ids) != q || mask&1 == 0) {
			continue
		}
		nch := len(choices)
		if f.scheme == crypto.NameBLS12 || !exhaustive {
			nch = 3
		}
		pick := make([]int, len(ids))
		var rec func(k int)
		rec = func(k int) {
			if k == len(ids) {
				for m := mNone; m < nMut; m++ {
					if f.scheme == crypto.NameBLS12 && m == mDupSig {
						continue
					}
					check(ids, pick, m)
				}
				return
			}
			for p := 0; p < nch; p++ {
				// limit the product: only the first three signers vary freely
				if k >= 3 && p != pick[0] {
					continue
				}
				pick[k] = p
				rec(k + 1)
			}
		}
		rec(0)
	}
	_ = sort.Ints
}
