package props

import (
	"fmt"
	"strings"

	"github.com/relab/hotstuff"
	"github.com/relab/hotstuff/security/cert"
	"github.com/relab/hotstuff/security/crypto"
	"github.com/relab/hotstuff/zverif/dump"
	"github.com/relab/hotstuff/zverif/ev"
	"github.com/relab/hotstuff/zverif/fix"
	"github.com/relab/hotstuff/zverif/seq"
)

func init() { Registry["C11"] = c11 }

// c11Op is one request issued to both authorities (cached and uncached).
type c11Op struct {
	name string
	run  func(a *cert.Authority, s *c11Sys) error
	// sign ops run only on the cached instance and then verify the fresh signature on both
	sign []byte
}

type c11Fix struct {
	scheme string
	cap    uint
	cached *fix.Cluster // cluster whose authorities have the cache
	plain  *fix.Cluster // same keys, no cache
	ops    []c11Op
	v      int // index of the authority under test
}

type c11Sys struct {
	f   *c11Fix
	ca  *cert.Authority // fresh cached authority for this execution
	pa  *cert.Authority
	own map[string]hotstuff.QuorumSignature
}

func relabelSig(scheme string, sig hotstuff.QuorumSignature, label hotstuff.ID) hotstuff.QuorumSignature {
	switch scheme {
	case crypto.NameEDDSA:
		return crypto.NewMulti(crypto.RestoreEDDSASignature(sig.ToBytes(), label))
	case crypto.NameECDSA:
		return crypto.NewMulti(crypto.RestoreECDSASignature(sig.ToBytes(), label))
	default:
		var bf crypto.Bitfield
		bf.Add(label)
		s, err := crypto.RestoreBLS12AggregateSignature(sig.ToBytes(), bf)
		if err != nil {
			panic(err)
		}
		return s
	}
}

// relabelSet rebuilds a combined signature with a different claimed signer set.
func relabelSet(scheme string, parts []hotstuff.QuorumSignature, combined hotstuff.QuorumSignature, labels []hotstuff.ID) hotstuff.QuorumSignature {
	switch scheme {
	case crypto.NameEDDSA:
		s := make([]*crypto.EDDSASignature, len(parts))
		for i, p := range parts {
			s[i] = crypto.RestoreEDDSASignature(p.ToBytes(), labels[i])
		}
		return crypto.NewMulti(s...)
	case crypto.NameECDSA:
		s := make([]*crypto.ECDSASignature, len(parts))
		for i, p := range parts {
			s[i] = crypto.RestoreECDSASignature(p.ToBytes(), labels[i])
		}
		return crypto.NewMulti(s...)
	default:
		var bf crypto.Bitfield
		for _, l := range labels {
			bf.Add(l)
		}
		s, err := crypto.RestoreBLS12AggregateSignature(combined.ToBytes(), bf)
		if err != nil {
			panic(err)
		}
		return s
	}
}

func newC11Fix(scheme string, capacity uint) *c11Fix {
	const n = 4
	f := &c11Fix{scheme: scheme, cap: capacity, v: 3}
	f.cached = fix.NewCluster(n, scheme, fix.Opts{Cache: capacity, AggQC: true})
	f.plain = fix.NewCluster(n, scheme, fix.Opts{AggQC: true})
	c := f.plain // signatures are produced by the uncached cluster (same keys)
	msgs := [][]byte{[]byte("message-0"), []byte("message-1")}
	add := func(name string, run func(a *cert.Authority, s *c11Sys) error) {
		f.ops = append(f.ops, c11Op{name: name, run: run})
	}
	ver := func(name string, sig hotstuff.QuorumSignature) {
		for mi, m := range msgs {
			m := m
			add(fmt.Sprintf("verify(%s, m%d)", name, mi), func(a *cert.Authority, _ *c11Sys) error { return a.Verify(sig, m) })
		}
	}
	for mi, m := range msgs {
		f.ops = append(f.ops, c11Op{name: fmt.Sprintf("sign(m%d)", mi), sign: m})
	}
	s1 := c.SignBytes(msgs[0], 0)[0]
	s2 := c.SignBytes(msgs[0], 1)[0]
	s1b := c.SignBytes(msgs[1], 0)[0]
	ver("sig1(m0)", s1)
	ver("sig2(m0)", s2)
	ver("sig1(m1)", s1b)
	ver("sig1(m0)-labelled-2", relabelSig(scheme, s1, 2))
	ver("sig1(m0)-labelled-unknown", relabelSig(scheme, s1, 9))
	add("verify(nil, m0)", func(a *cert.Authority, _ *c11Sys) error { return a.Verify(nil, msgs[0]) })
	add("batchVerify(nil)", func(a *cert.Authority, _ *c11Sys) error { return a.BatchVerify(nil, map[hotstuff.ID][]byte{1: msgs[0]}) })
	comb := c.Combine(s1, s2)
	ver("sig{1,2}(m0)", comb)
	ver("sig{1,2}(m0)-labelled-{1,3}", relabelSet(scheme, []hotstuff.QuorumSignature{s1, s2}, comb, []hotstuff.ID{1, 3}))
	ver("sig{1,2}(m0)-labelled-{2,1}", relabelSet(scheme, []hotstuff.QuorumSignature{s1, s2}, comb, []hotstuff.ID{2, 1}))
	// inputs crafted against an ambiguous boundary between the message and the signer list in the
	// cache key: the same bytes with the lowest signer labels moved into the message
	{
		m01 := append(append([]byte(nil), msgs[0]...), hotstuff.ID(1).ToBytes()...)
		m012 := append(append([]byte(nil), m01...), hotstuff.ID(2).ToBytes()...)
		only2 := relabelSet(scheme, []hotstuff.QuorumSignature{s2}, comb, []hotstuff.ID{2})
		if scheme != crypto.NameBLS12 {
			// same signature bytes as comb, one label: entries carry both raw signatures under label 2
			only2 = relabelSet(scheme, []hotstuff.QuorumSignature{c.Combine(s1, s2)}, comb, []hotstuff.ID{2})
		}
		add("verify(sig{1,2}(m0)-labelled-{2}, m0|id1)", func(a *cert.Authority, _ *c11Sys) error { return a.Verify(only2, m01) })
		add("verify(sig{1,2}(m0)-labelled-{2}, m0|id1|id2)", func(a *cert.Authority, _ *c11Sys) error { return a.Verify(only2, m012) })
	}
	if scheme == crypto.NameBLS12 {
		ver("sig{1,2}(m0)-labelled-{1,2,3}", relabelSet(scheme, nil, comb, []hotstuff.ID{1, 2, 3}))
		ver("sig{1,2}(m0)-labelled-{1}", relabelSet(scheme, nil, comb, []hotstuff.ID{1}))
	}
	// own signatures made during the sequence
	for mi := range msgs {
		mi := mi
		for mj, m := range msgs {
			m := m
			add(fmt.Sprintf("verify(own(m%d), m%d)", mi, mj), func(a *cert.Authority, s *c11Sys) error {
				sig := s.own[fmt.Sprintf("m%d", mi)]
				if sig == nil {
					return nil
				}
				return a.Verify(sig, m)
			})
		}
		add(fmt.Sprintf("verify(own(m%d)-labelled-2, m%d)", mi, mi), func(a *cert.Authority, s *c11Sys) error {
			sig := s.own[fmt.Sprintf("m%d", mi)]
			if sig == nil {
				return nil
			}
			return a.Verify(relabelSig(scheme, sig, 2), msgs[mi])
		})
	}
	// batches
	b1 := c.SignBytes([]byte("ab"), 0)[0]
	b2 := c.SignBytes([]byte("c"), 1)[0]
	bs := c.Combine(b1, b2)
	batch := func(name string, sig hotstuff.QuorumSignature, m map[hotstuff.ID][]byte) {
		add("batchVerify("+name+")", func(a *cert.Authority, _ *c11Sys) error { return a.BatchVerify(sig, m) })
	}
	batch("{1:ab,2:c}", bs, map[hotstuff.ID][]byte{1: []byte("ab"), 2: []byte("c")})
	batch("{1:a,2:bc} same concatenation", bs, map[hotstuff.ID][]byte{1: []byte("a"), 2: []byte("bc")})
	batch("{1:c,2:ab} swapped", bs, map[hotstuff.ID][]byte{1: []byte("c"), 2: []byte("ab")})
	batch("{2:ab,3:c} other ids", bs, map[hotstuff.ID][]byte{2: []byte("ab"), 3: []byte("c")})
	batch("{1:ab,2:c} sig labelled {1,3}", relabelSet(scheme, []hotstuff.QuorumSignature{b1, b2}, bs, []hotstuff.ID{1, 3}), map[hotstuff.ID][]byte{1: []byte("ab"), 2: []byte("c")})
	batch("{1:ab,2:c,3:} extra empty", bs, map[hotstuff.ID][]byte{1: []byte("ab"), 2: []byte("c"), 3: {}})
	// batches crafted against delimiter schemes: if the key digest separates the per-signer
	// messages with the signer id and a *constant* k (instead of the message's own length), the two
	// batches below produce the same byte stream
	for _, k := range []uint64{0, 1, 2, 3, 8} {
		sep := append(hotstuff.ID(2).ToBytes(), hotstuff.View(k).ToBytes()...)
		m1 := append(append([]byte("a"), sep...), 'b')
		m2 := []byte("c")
		n1 := []byte("a")
		n2 := append(append([]byte("b"), sep...), 'c')
		sg := c.Combine(c.SignBytes(m1, 0)[0], c.SignBytes(m2, 1)[0])
		batch(fmt.Sprintf("crafted(k=%d) {1:a|sep|b,2:c}", k), sg, map[hotstuff.ID][]byte{1: m1, 2: m2})
		batch(fmt.Sprintf("crafted(k=%d) {1:a,2:b|sep|c} same stream under constant delimiters", k), sg, map[hotstuff.ID][]byte{1: n1, 2: n2})
	}
	// a plain signature over the concatenation, presented as a batch, and vice versa
	sc := c.Combine(c.SignBytes([]byte("abc"), 0)[0], c.SignBytes([]byte("abc"), 1)[0])
	add("verify(sig{1,2}(abc), abc)", func(a *cert.Authority, _ *c11Sys) error { return a.Verify(sc, []byte("abc")) })
	batch("sig{1,2}(abc) as {1:ab,2:c}", sc, map[hotstuff.ID][]byte{1: []byte("ab"), 2: []byte("c")})
	add("verify(batch-sig, abc)", func(a *cert.Authority, _ *c11Sys) error { return a.Verify(bs, []byte("abc")) })
	// certificates
	bA := hotstuff.NewBlock(hotstuff.GetGenesis().Hash(), fix.GenesisQC(), fix.Batch(fix.Cmd(1, 1)), 1, 1)
	bB := hotstuff.NewBlock(hotstuff.GetGenesis().Hash(), fix.GenesisQC(), fix.Batch(fix.Cmd(1, 2)), 2, 1)
	f.cached.StoreAll(bA)
	f.cached.StoreAll(bB)
	f.plain.StoreAll(bA)
	f.plain.StoreAll(bB)
	qcA := c.QC(bA, 0, 1, 2)
	add("verifyQC(A)", func(a *cert.Authority, _ *c11Sys) error { return a.VerifyQuorumCert(qcA) })
	add("verifyQC(A sigs, hash B)", func(a *cert.Authority, _ *c11Sys) error {
		return a.VerifyQuorumCert(hotstuff.NewQuorumCert(qcA.Signature(), bB.View(), bB.Hash()))
	})
	tsig := c.Combine(c.SignBytes(hotstuff.View(5).ToBytes(), 0, 1, 2)...)
	add("verifyTC(5)", func(a *cert.Authority, _ *c11Sys) error { return a.VerifyTimeoutCert(hotstuff.NewTimeoutCert(tsig, 5)) })
	add("verifyTC(5 sigs, view 6)", func(a *cert.Authority, _ *c11Sys) error { return a.VerifyTimeoutCert(hotstuff.NewTimeoutCert(tsig, 6)) })
	mkAgg := func(view, signed hotstuff.View, qcs map[hotstuff.ID]hotstuff.QuorumCert, signedQCs map[hotstuff.ID]hotstuff.QuorumCert) hotstuff.AggregateQC {
		var sigs []hotstuff.QuorumSignature
		for i := 0; i < 3; i++ {
			id := hotstuff.ID(i + 1)
			tm := hotstuff.TimeoutMsg{ID: id, View: signed, SyncInfo: hotstuff.NewSyncInfoWith(signedQCs[id])}
			sigs = append(sigs, c.SignBytes(tm.ToBytes(), i)...)
		}
		return hotstuff.NewAggregateQC(qcs, c.Combine(sigs...), view)
	}
	g := fix.GenesisQC()
	qq := map[hotstuff.ID]hotstuff.QuorumCert{1: g, 2: qcA, 3: g}
	swapped := map[hotstuff.ID]hotstuff.QuorumCert{1: qcA, 2: g, 3: g}
	aggOK := mkAgg(7, 7, qq, qq)
	add("verifyAggQC(ok)", func(a *cert.Authority, _ *c11Sys) error { _, e := a.VerifyAggregateQC(aggOK); return e })
	aggV := hotstuff.NewAggregateQC(qq, aggOK.Sig(), 8)
	add("verifyAggQC(view relabelled)", func(a *cert.Authority, _ *c11Sys) error { _, e := a.VerifyAggregateQC(aggV); return e })
	aggS := hotstuff.NewAggregateQC(swapped, aggOK.Sig(), 7)
	add("verifyAggQC(QCs swapped between signers)", func(a *cert.Authority, _ *c11Sys) error { _, e := a.VerifyAggregateQC(aggS); return e })
	add("combine(sig1,sig1)", func(a *cert.Authority, _ *c11Sys) error { _, e := a.Combine(s1, s1); return e })
	return f
}

func (f *c11Fix) newSys() *c11Sys {
	// a fresh cached authority (fresh cache) over the shared keys / chains
	ca := cert.NewAuthority(f.cached.Cfgs[f.v], f.cached.Chains[f.v], f.cached.Recs[f.v])
	return &c11Sys{f: f, ca: ca, pa: f.plain.Auths[f.v], own: map[string]hotstuff.QuorumSignature{}}
}

func (s *c11Sys) Apply(op int) string {
	o := s.f.ops[op]
	if o.sign != nil {
		var sig hotstuff.QuorumSignature
		var err error
		if p := safely(func() { sig, err = s.ca.Sign(o.sign) }); p != nil || err != nil {
			return fmt.Sprintf("%s failed: %v %v", o.name, p, err)
		}
		s.own[o.name[5:7]] = sig
		e1, e2 := s.ca.Verify(sig, o.sign), s.pa.Verify(sig, o.sign)
		if (e1 == nil) != (e2 == nil) {
			return fmt.Sprintf("%s then verify: cached says %v, uncached says %v", o.name, e1, e2)
		}
		return ""
	}
	var e1, e2 error
	p1 := safely(func() { e1 = o.run(s.ca, s) })
	p2 := safely(func() { e2 = o.run(s.pa, s) })
	if (p1 != nil) != (p2 != nil) {
		return fmt.Sprintf("%s: cached panic=%v, uncached panic=%v", o.name, p1, p2)
	}
	if p1 == nil && (e1 == nil) != (e2 == nil) {
		return fmt.Sprintf("%s: cached verdict %s, uncached verdict %s", o.name, verdict(e1), verdict(e2))
	}
	return ""
}

func verdict(e error) string {
	if e == nil {
		return "VALID"
	}
	return "invalid"
}

var c11DumpOpts = &dump.Options{SkipFields: map[string]bool{"github.com/relab/hotstuff/security/cert.Cache.impl": true}}

func (s *c11Sys) Key() string {
	k := dump.String(s.ca.Base, c11DumpOpts)
	for _, n := range []string{"m0", "m1"} {
		if s.own[n] != nil {
			k += "|own" + n
		}
	}
	return k
}

func c11(r *ev.Reporter, _ []string) {
	r.Rule = "two authorities over the same keys (cache capacity c vs. no cache) driven by every operation sequence up to depth D over {sign, verify, batchVerify, combine, verifyQC/TC/AggQC} with replayed / relabelled signatures, messages and batches; canonical state = LRU content and order; oracle = identical verdict at every step; plus every pair of verification requests issued concurrently to one cached authority under the controlled scheduler (<=2 preemptions), same oracle; distinct = cache states"
	depth := 3
	caps := []uint{1, 2, 3, 4}
	if !r.Quick() {
		depth = 4
		caps = []uint{1, 2, 3, 4, 5, 6, 7, 8}
	}
	var bounds []string
	for _, scheme := range []string{crypto.NameEDDSA, crypto.NameECDSA, crypto.NameBLS12} {
		for _, ca := range caps {
			d := depth
			if scheme == crypto.NameBLS12 {
				d = depth - 1
				if ca > 4 || (r.Quick() && ca != 1 && ca != 4) {
					continue
				}
			}
			f := newC11Fix(scheme, ca)
			st := seq.Run(seq.Config{NumOps: len(f.ops), MaxDepth: d, Dedup: true, New: func() seq.System { return f.newSys() },
				Stop: func() bool { return r.Violations() > 6 || r.Expired() },
				OnFail: func(ops []int, msg string) {
					names := make([]string, len(ops))
					for i, o := range ops {
						names[i] = f.ops[o].name
					}
					r.Violation(fmt.Sprintf("C11 %s: %s", scheme, classify(msg)), fmt.Sprintf("%s capacity=%d, sequence [%s]: %s", scheme, ca, strings.Join(names, "; "), msg),
						map[string]any{"scheme": scheme, "capacity": ca, "ops": ops, "names": names})
				}})
			r.Count(st.States, st.Transitions, st.Transitions, st.States)
			bounds = append(bounds, fmt.Sprintf("%s capacity=%d depth=%d ops=%d states=%d transitions=%d", scheme, ca, d, len(f.ops), st.States, st.Transitions))
			if st.Stopped {
				r.Cap("stopped early")
			}
		}
	}
	bounds = append(bounds, c11Concurrent(r)...)
	r.Extra["bounds_completed"] = bounds
	r.Sample("eddsa cap=2: verify(sig1(m0), m0); verify(sig1(m0)-labelled-2, m0) -> both authorities must say invalid for the second")
	r.Sample("ecdsa cap=1: batchVerify({1:ab,2:c}); batchVerify({1:a,2:bc} same concatenation)")
	r.Traces = r.Transitions
	r.Explanation = "Each transition issues the same request to the real cached and uncached cert.Authority and compares verdicts."
}
