package props

import (
	"fmt"

	bls12 "github.com/kilic/bls12-381"
	"github.com/relab/hotstuff"
	"github.com/relab/hotstuff/core"
	"github.com/relab/hotstuff/security/blockchain"
	"github.com/relab/hotstuff/security/cert"
	"github.com/relab/hotstuff/security/crypto"
	"github.com/relab/hotstuff/zverif/ev"
	"github.com/relab/hotstuff/zverif/fix"
)

// c02Rogue: BLS12 key registration by a Byzantine replica. Replica n registers, instead of a key it
// owns, the rogue key x*G - (pk_1 + ... + pk_{n-1}); the aggregate x*H(m) then satisfies the
// same-message aggregate equation for the participant set {1..n} although no honest replica signed m.
// The only defence is the proof of possession, which the Byzantine replica cannot produce for the
// rogue key. Enumerated: what it announces as its proof (absent, garbage, a proof that is valid for
// x*G, the genuine proof of each honest replica), the honest verifier, whether the verifier has
// already verified genuine certificates of the honest replicas (warming every internal cache), the
// certificate kind (QC, TC) and the cache option. Oracle: the forged certificate is rejected, and the
// honest certificates keep verifying.
func c02Rogue(r *ev.Reporter) int64 {
	var cases int64
	for _, n := range []int{4, 7} {
		if n == 7 && r.Quick() {
			continue
		}
		c := fix.NewCluster(n, crypto.NameBLS12, fix.Opts{})
		q := hotstuff.QuorumSize(n)
		byz := hotstuff.ID(n)
		g1 := bls12.NewG1()
		xKey := fix.Key(crypto.NameBLS12, 99).(*crypto.BLS12PrivateKey)
		xPub := xKey.Public().(*crypto.BLS12PublicKey)
		acc, err := g1.FromCompressed(xPub.ToBytes())
		if err != nil {
			ev.Broken("C02 rogue key: %v", err)
		}
		for i := 0; i < n-1; i++ {
			p, err := g1.FromCompressed(c.Keys[i].Public().(*crypto.BLS12PublicKey).ToBytes())
			if err != nil {
				ev.Broken("C02 rogue key: %v", err)
			}
			g1.Sub(acc, acc, p)
		}
		rogue := &crypto.BLS12PublicKey{}
		if err := rogue.FromBytes(g1.ToCompressed(acc)); err != nil {
			ev.Broken("C02 rogue key: %v", err)
		}
		// the adversary's signing primitive for x
		xCfg := core.NewRuntimeConfig(byz, xKey)
		xBase, err := crypto.NewBLS12(xCfg)
		if err != nil {
			ev.Broken("C02 rogue key: %v", err)
		}
		const popKey = "bls12-pop-bin"
		proofs := []struct {
			name string
			md   map[string]string
		}{
			{"no proof", map[string]string{}},
			{"garbage proof", map[string]string{popKey: "garbage"}},
			{"proof valid for x*G", map[string]string{popKey: xCfg.ConnectionMetadata()[popKey]}},
		}
		for i := 0; i < n-1; i++ {
			proofs = append(proofs, struct {
				name string
				md   map[string]string
			}{fmt.Sprintf("replayed proof of replica %d", i+1), map[string]string{popKey: c.Cfgs[i].ConnectionMetadata()[popKey]}})
		}
		// a block nobody signed, and a genuinely certified one
		forgedBlock := hotstuff.NewBlock(hotstuff.GetGenesis().Hash(), fix.GenesisQC(), fix.Batch(fix.Cmd(6, 6)), 3, 2)
		goodBlock := hotstuff.NewBlock(hotstuff.GetGenesis().Hash(), fix.GenesisQC(), fix.Batch(fix.Cmd(6, 7)), 1, 2)
		goodQC := c.QC(goodBlock, fix.Range(q)...)
		goodTC := hotstuff.NewTimeoutCert(c.Combine(c.SignBytes(hotstuff.View(2).ToBytes(), fix.Range(q)...)...), 2)
		all := crypto.Bitfield{}
		for id := 1; id <= n; id++ {
			all.Add(hotstuff.ID(id))
		}
		forge := func(msg []byte) hotstuff.QuorumSignature {
			s, err := xBase.Sign(msg)
			if err != nil {
				ev.Broken("C02 rogue key: %v", err)
			}
			f, err := crypto.RestoreBLS12AggregateSignature(s.ToBytes(), all)
			if err != nil {
				ev.Broken("C02 rogue key: %v", err)
			}
			return f
		}
		forgedQC := hotstuff.NewQuorumCert(forge(forgedBlock.ToBytes()), forgedBlock.View(), forgedBlock.Hash())
		forgedTC := hotstuff.NewTimeoutCert(forge(hotstuff.View(9).ToBytes()), 9)
		for _, pr := range proofs {
			for v := 1; v < n; v++ { // honest verifier
				for _, cache := range []uint{0, 8} {
					for _, warm := range []bool{false, true} {
						var opts []core.RuntimeOption
						if cache > 0 {
							opts = append(opts, core.WithCache(cache))
						}
						cfg := core.NewRuntimeConfig(hotstuff.ID(v), c.Keys[v-1], opts...)
						for j := 0; j < n-1; j++ {
							md := map[string]string{}
							for k, val := range c.Cfgs[j].ConnectionMetadata() {
								md[k] = val
							}
							cfg.AddReplica(&hotstuff.ReplicaInfo{ID: hotstuff.ID(j + 1), PubKey: c.Keys[j].Public(), Metadata: md})
						}
						cfg.AddReplica(&hotstuff.ReplicaInfo{ID: byz, PubKey: rogue, Metadata: pr.md})
						base, err := crypto.NewBLS12(cfg)
						if err != nil {
							ev.Broken("C02 rogue key: %v", err)
						}
						chain := blockchain.New(nil, &fix.NopLogger{}, &fix.Sender{ID: hotstuff.ID(v)})
						chain.Store(forgedBlock)
						chain.Store(goodBlock)
						auth := cert.NewAuthority(cfg, chain, base)
						desc := fmt.Sprintf("bls12 n=%d, replica %d registered the rogue key x*G-sum(other keys) with %s, verifier %d, cache=%d, honest certificates verified first=%v", n, byz, pr.name, v, cache, warm)
						cases++
						r.Evaluations++
						r.States++
						r.Nontrivial++
						if warm {
							if err := auth.VerifyQuorumCert(goodQC); err != nil {
								r.Violation("C02 bls12 rogue registration: honest QC rejected", desc+": "+err.Error(), map[string]any{"case": desc})
							}
							if err := auth.VerifyTimeoutCert(goodTC); err != nil {
								r.Violation("C02 bls12 rogue registration: honest TC rejected", desc+": "+err.Error(), map[string]any{"case": desc})
							}
						}
						var e1, e2 error
						if p := safely(func() { e1 = auth.VerifyQuorumCert(forgedQC); e2 = auth.VerifyTimeoutCert(forgedTC) }); p != nil {
							continue // a panic is a rejection here (reported under C10)
						}
						r.Transitions += 2
						if e1 == nil {
							r.Violation("C02 bls12 rogue registration: forged QC accepted", desc+": a QC over a block that no replica but the Byzantine one signed was accepted as signed by all replicas", map[string]any{"case": desc})
						}
						if e2 == nil {
							r.Violation("C02 bls12 rogue registration: forged TC accepted", desc+": a TC for a view that no replica but the Byzantine one signed was accepted as signed by all replicas", map[string]any{"case": desc})
						}
					}
				}
			}
		}
	}
	return cases
}
