package props

import (
	"bytes"
	"encoding/json"
	"errors"
	"fmt"
	"io"
	"sort"

	"github.com/relab/hotstuff"
	"github.com/relab/hotstuff/twins"
	"github.com/relab/hotstuff/zverif/ev"
	"github.com/relab/hotstuff/zverif/fix"
	"github.com/relab/hotstuff/zverif/par"
)

func init() { Registry["C18"] = c18 }

func scenarioKey(s twins.Scenario) string {
	b, err := json.Marshal(s)
	if err != nil {
		return "ERR:" + err.Error()
	}
	return string(b)
}

// drain pulls scenarios until EOF (or limit+2 to detect over-production).
func drain(g *twins.Generator, limit int64) (keys []string, scen []twins.Scenario, err error) {
	for int64(len(keys)) <= limit+1 {
		var s twins.Scenario
		var e error
		if p := safely(func() { s, e = g.NextScenario() }); p != nil {
			return keys, scen, fmt.Errorf("panic: %v", p)
		}
		if e != nil {
			if errors.Is(e, io.EOF) {
				return keys, scen, nil
			}
			return keys, scen, e
		}
		keys = append(keys, scenarioKey(s))
		scen = append(scen, s)
	}
	return keys, scen, nil
}

func c18(r *ev.Reporter, _ []string) {
	r.Rule = "generator: every setting with nodes<=5, twins<=2 (< nodes), partitions<=3, views<=4 whose announced count <= cap, drained to EOF, unshuffled and shuffled with seeds {0,1,2}, JSON round trip of every scenario; executor verdict: every combination of commit logs (length<=3 over 3 block names) of up to 4 replicas incl. one twin pair vs. reference; distinct = distinct settings / log combinations"
	capCount := int64(200_000)
	if !r.Quick() {
		capCount = 3_000_000
	}
	type set struct{ n, t, p, v uint8 }
	var sets []set
	for n := uint8(1); n <= 5; n++ {
		for t := uint8(0); t <= 2 && t <= n; t++ {
			for p := uint8(1); p <= 3; p++ {
				for v := uint8(1); v <= 4; v++ {
					sets = append(sets, set{n, t, p, v})
				}
			}
		}
	}
	var skipped []string
	var mu = make(chan struct{}, 1)
	par.Each(len(sets), func(i int) {
		s := sets[i]
		st := twins.Settings{NumNodes: s.n, NumTwins: s.t, Partitions: s.p, Views: s.v}
		desc := fmt.Sprintf("nodes=%d twins=%d partitions=%d views=%d", s.n, s.t, s.p, s.v)
		fail := func(class, msg string) {
			r.Violation("C18 generator: "+class, desc+": "+msg, map[string]any{"settings": desc})
		}
		var g *twins.Generator
		if p := safely(func() { g = twins.NewGenerator(&fix.NopLogger{}, st) }); p != nil {
			fail("NewGenerator panics", fmt.Sprint(p))
			return
		}
		announced := g.Remaining()
		if announced > capCount || announced < 0 {
			mu <- struct{}{}
			skipped = append(skipped, fmt.Sprintf("%s (announced %d)", desc, announced))
			<-mu
			return
		}
		keys, scen, err := drain(g, announced)
		r.Count(1, int64(len(keys))+1, int64(len(keys))+1, 1)
		if err != nil {
			fail("NextScenario fails", fmt.Sprintf("after %d scenarios: %v", len(keys), err))
			return
		}
		if int64(len(keys)) != announced {
			fail("yielded count differs from the announced count", fmt.Sprintf("announced %d, yielded %d before EOF", announced, len(keys)))
		}
		if g.Remaining() != 0 && int64(len(keys)) == announced {
			fail("Remaining() not zero after the last scenario", fmt.Sprintf("Remaining()=%d", g.Remaining()))
		}
		// a further call keeps reporting EOF (no panic)
		if p := safely(func() {
			if _, e := g.NextScenario(); !errors.Is(e, io.EOF) {
				fail("call after EOF does not report EOF", fmt.Sprint(e))
			}
		}); p != nil {
			fail("call after EOF panics", fmt.Sprint(p))
		}
		seen := map[string]bool{}
		for _, k := range keys {
			if seen[k] {
				fail("scenario repeated", k)
				break
			}
			seen[k] = true
		}
		// determinism: a second generator yields the same sequence
		g2 := twins.NewGenerator(&fix.NopLogger{}, st)
		keys2, _, _ := drain(g2, announced)
		if fmt.Sprint(keys) != fmt.Sprint(keys2) {
			fail("two generators disagree", "sequences differ")
		}
		// well-formedness
		nodes, tw := twins.VerifAllNodes(s.n, s.t)
		all := append(append([]twins.NodeID{}, nodes...), tw...)
		for _, sc := range scen {
			if len(sc) != int(s.v) {
				fail("scenario has wrong number of views", fmt.Sprintf("%d", len(sc)))
				break
			}
			bad := ""
			for vi, view := range sc {
				if view.Leader < 1 || view.Leader > hotstuff.ID(s.n) {
					bad = fmt.Sprintf("view %d: leader %d is not a configured replica", vi+1, view.Leader)
				}
				for _, id := range all {
					cnt := 0
					for _, p := range view.Partitions {
						if p != nil && p.Contains(id) {
							cnt++
						}
					}
					if cnt != 1 {
						bad = fmt.Sprintf("view %d: node %v is in %d partitions", vi+1, id, cnt)
					}
				}
				total := 0
				for _, p := range view.Partitions {
					total += len(p)
				}
				if total != len(all) {
					bad = fmt.Sprintf("view %d: partitions hold %d nodes, system has %d", vi+1, total, len(all))
				}
			}
			if bad != "" {
				fail("malformed scenario", bad+" in "+scenarioKey(sc))
				break
			}
		}
		// shuffle: permutation of the unshuffled set, reproducible
		for seed := int64(0); seed < 3; seed++ {
			ga := twins.NewGenerator(&fix.NopLogger{}, st)
			gb := twins.NewGenerator(&fix.NopLogger{}, st)
			if len(keys) == 0 {
				break // nothing to shuffle (Shuffle on an empty generator is not part of the contract)
			}
			ga.Shuffle(seed)
			gb.Shuffle(seed)
			ka, _, ea := drain(ga, announced)
			kb, _, _ := drain(gb, announced)
			r.Count(0, int64(len(ka)), int64(len(ka)), 0)
			if ea != nil {
				fail("shuffled generator fails", ea.Error())
				continue
			}
			if fmt.Sprint(ka) != fmt.Sprint(kb) {
				fail("shuffle with the same seed is not reproducible", fmt.Sprintf("seed %d", seed))
			}
			sa := append([]string(nil), ka...)
			sk := append([]string(nil), keys...)
			sort.Strings(sa)
			sort.Strings(sk)
			if fmt.Sprint(sa) != fmt.Sprint(sk) {
				fail("shuffled output is not a permutation of the unshuffled set", fmt.Sprintf("seed %d: %d vs %d scenarios", seed, len(ka), len(keys)))
			}
		}
		// JSON round trip through the writer / reader
		if len(scen) > 0 && len(scen) <= 100_000 {
			var buf bytes.Buffer
			wr, err := twins.ToJSON(st, &buf)
			if err != nil {
				fail("ToJSON", err.Error())
				return
			}
			for _, sc := range scen {
				if err := wr.WriteScenario(sc); err != nil {
					fail("WriteScenario", err.Error())
					return
				}
			}
			_ = wr.Close()
			src, err := twins.FromJSON(&buf)
			if err != nil {
				fail("FromJSON", err.Error())
				return
			}
			if src.Settings() != st || src.Remaining() != int64(len(scen)) {
				fail("JSON round trip changes settings or count", fmt.Sprintf("%+v remaining %d", src.Settings(), src.Remaining()))
			}
			for i := range scen {
				back, err := src.NextScenario()
				if err != nil || scenarioKey(back) != keys[i] {
					fail("JSON round trip changes a scenario", fmt.Sprintf("scenario %d: %v", i, err))
					break
				}
			}
		}
	})
	sort.Strings(skipped)
	r.Extra["settings_total"] = len(sets)
	r.Extra["settings_not_covered_announced_above_cap"] = skipped
	r.Extra["cap"] = capCount
	if len(skipped) > 0 {
		r.Cap(fmt.Sprintf("%d settings with more than %d announced scenarios not drained", len(skipped), capCount))
	}
	r.Sample("nodes=4 twins=1 partitions=2 views=2: drained to EOF, count == Remaining() at construction")
	c18Verdict(r)
	r.Traces = r.Evaluations
	r.Explanation = "The real Generator is drained for each setting; the executor's checkCommits runs on synthetic logs through an in-package accessor."
}

func c18Verdict(r *ev.Reporter) {
	names := []*hotstuff.Block{
		hotstuff.NewBlock(hotstuff.GetGenesis().Hash(), fix.GenesisQC(), fix.Batch(fix.Cmd(1, 1)), 1, 1),
		hotstuff.NewBlock(hotstuff.GetGenesis().Hash(), fix.GenesisQC(), fix.Batch(fix.Cmd(1, 2)), 1, 2),
		hotstuff.NewBlock(hotstuff.GetGenesis().Hash(), fix.GenesisQC(), fix.Batch(fix.Cmd(1, 3)), 2, 1),
	}
	var logs [][]*hotstuff.Block
	var cur []*hotstuff.Block
	var rec func()
	rec = func() {
		logs = append(logs, append([]*hotstuff.Block(nil), cur...))
		if len(cur) == 3 {
			return
		}
		for _, b := range names {
			cur = append(cur, b)
			rec()
			cur = cur[:len(cur)-1]
		}
	}
	rec()
	// layouts: 4 plain replicas; 2 plain + 1 twin pair; 3 plain + ... (up to 4 nodes)
	type layout []twins.NodeID
	layouts := []layout{
		{twins.Replica(1), twins.Replica(2), twins.Replica(3), twins.Replica(4)},
		{twins.Replica(1).Twin(1), twins.Replica(1).Twin(2), twins.Replica(2), twins.Replica(3)},
		{twins.Replica(1), twins.Replica(2)},
		{twins.Replica(1).Twin(1), twins.Replica(1).Twin(2), twins.Replica(2)},
	}
	L := len(logs)
	for _, lay := range layouts {
		n := len(lay)
		total := 1
		for i := 0; i < n; i++ {
			total *= L
		}
		par.Each(L, func(first int) {
			var st int64
			idx := make([]int, n)
			idx[0] = first
			var rec2 func(k int)
			rec2 = func(k int) {
				if k == n {
					m := map[twins.NodeID][]*hotstuff.Block{}
					for i, id := range lay {
						m[id] = logs[idx[i]]
					}
					safe, commits := twins.VerifCheckCommits(m)
					// reference
					wantSafe, wantCommits := true, 0
					for pos := 0; ; pos++ {
						seen := map[hotstuff.Hash]bool{}
						for i, id := range lay {
							if id.TwinID != 0 {
								continue
							}
							if l := logs[idx[i]]; len(l) > pos {
								seen[l[pos].Hash()] = true
							}
						}
						if len(seen) == 0 {
							break
						}
						if len(seen) > 1 {
							wantSafe = false
							break
						}
						wantCommits = pos + 1
					}
					st++
					if safe != wantSafe || commits != wantCommits {
						r.Violation("C18 executor verdict", fmt.Sprintf("layout %v logs %v: Safe=%v Commits=%d, reference Safe=%v Commits=%d", lay, idx, safe, commits, wantSafe, wantCommits), map[string]any{"layout": fmt.Sprint(lay), "logs": idx})
					}
					return
				}
				for i := 0; i < L; i++ {
					idx[k] = i
					rec2(k + 1)
				}
			}
			rec2(1)
			r.Count(st, st, st, st)
		})
		_ = total
	}
	r.Sample("layout [r1n1 r1n2 r2n0 r3n0], logs: twin A=[b1], twin B=[b2], r2=[b1 b3], r3=[b1] -> Safe, Commits=2 (twins ignored)")
}
