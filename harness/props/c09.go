package props

import (
	"context"
	"fmt"
	"sort"
	"strings"
	"time"

	"github.com/relab/hotstuff"
	"github.com/relab/hotstuff/core"
	"github.com/relab/hotstuff/core/eventloop"
	"github.com/relab/hotstuff/internal/proto/hotstuffpb"
	"github.com/relab/hotstuff/internal/proto/kauripb"
	"github.com/relab/hotstuff/internal/tree"
	"github.com/relab/hotstuff/protocol/comm"
	"github.com/relab/hotstuff/protocol/rules"
	"github.com/relab/hotstuff/security/blockchain"
	"github.com/relab/hotstuff/security/cert"
	"github.com/relab/hotstuff/security/crypto"
	"github.com/relab/hotstuff/zverif/ev"
	"github.com/relab/hotstuff/zverif/fix"
	"github.com/relab/hotstuff/zverif/node"
	"github.com/relab/hotstuff/zverif/par"
)

func init() { Registry["C09"] = c09 }

// c09Msg is one message that can be delivered to the collector.
type c09Msg struct {
	name   string
	ev     func() any
	must   hotstuff.ID   // a valid vote by this member (0 = none)
	may    []hotstuff.ID // members whose genuine signature the message carries (don't-care for counting)
	isProp bool
}

type c09Fix struct {
	n, q   int
	scheme string
	c      *fix.Cluster
	b      *hotstuff.Block
	honest []c09Msg
	host   []c09Msg
	prop   c09Msg
	tc     c09Msg // the collector leaves the block's view through a genuine timeout certificate
}

func multiOf(scheme string, parts ...[2]any) hotstuff.QuorumSignature { // (label ID, raw bytes)
	switch scheme {
	case crypto.NameECDSA:
		s := make([]*crypto.ECDSASignature, len(parts))
		for i, p := range parts {
			s[i] = crypto.RestoreECDSASignature(p[1].([]byte), p[0].(hotstuff.ID))
		}
		return crypto.NewMulti(s...)
	default:
		s := make([]*crypto.EDDSASignature, len(parts))
		for i, p := range parts {
			s[i] = crypto.RestoreEDDSASignature(p[1].([]byte), p[0].(hotstuff.ID))
		}
		return crypto.NewMulti(s...)
	}
}

func newC09Fix(n int, scheme string) *c09Fix {
	f := &c09Fix{n: n, q: hotstuff.QuorumSize(n), scheme: scheme}
	f.c = fix.NewCluster(n, scheme, fix.Opts{})
	f.b = hotstuff.NewBlock(hotstuff.GetGenesis().Hash(), fix.GenesisQC(), fix.Batch(fix.Cmd(1, 1)), 1, 2)
	f.c.StoreAll(f.b)
	other := hotstuff.NewBlock(hotstuff.GetGenesis().Hash(), fix.GenesisQC(), fix.Batch(fix.Cmd(1, 2)), 1, 2)
	f.prop = c09Msg{name: "propose(B)", isProp: true, must: 1, ev: func() any { return hotstuff.ProposeMsg{ID: 2, Block: f.b} }}
	vote := func(id hotstuff.ID, sig hotstuff.QuorumSignature, h hotstuff.Hash) func() any {
		return func() any { return hotstuff.VoteMsg{ID: id, PartialCert: hotstuff.NewPartialCert(sig, h)} }
	}
	raw := func(i int, msg []byte) []byte { return f.c.SignBytes(msg, i)[0].ToBytes() }
	for i := 1; i < n; i++ { // replicas 2..n
		id := hotstuff.ID(i + 1)
		f.honest = append(f.honest, c09Msg{name: fmt.Sprintf("vote(%d)", id), must: id, ev: vote(id, f.c.SignBlock(f.b, i)[0], f.b.Hash())})
	}
	{
		v := f.b.View()
		tc := hotstuff.NewTimeoutCert(f.c.Combine(f.c.SignBytes(v.ToBytes(), fix.Range(f.q)...)...), v)
		f.tc = c09Msg{name: fmt.Sprintf("newview TC(v%d)", v), ev: func() any {
			return hotstuff.NewViewMsg{ID: 3, SyncInfo: hotstuff.NewSyncInfoWith(tc), FromNetwork: true}
		}}
	}
	byz := hotstuff.ID(n)
	bi := n - 1
	f.host = []c09Msg{
		{name: "vote(3) again", must: 3, ev: vote(3, f.c.SignBlock(f.b, 2)[0], f.b.Hash())},
		{name: fmt.Sprintf("vote(%d) forged signature", byz), ev: vote(byz, multiOf(scheme, [2]any{byz, make([]byte, 64)}), f.b.Hash())},
		{name: fmt.Sprintf("vote(%d) signed over another block", byz), ev: vote(byz, f.c.SignBlock(other, bi)[0], f.b.Hash())},
		{name: fmt.Sprintf("vote(%d) carrying the signatures of %d and 3", byz, byz), may: []hotstuff.ID{byz, 3}, ev: vote(byz, multiOf(scheme, [2]any{byz, raw(bi, f.b.ToBytes())}, [2]any{hotstuff.ID(3), raw(2, f.b.ToBytes())}), f.b.Hash())},
		{name: fmt.Sprintf("vote(%d) with its signature twice", byz), may: []hotstuff.ID{byz}, ev: vote(byz, multiOf(scheme, [2]any{byz, raw(bi, f.b.ToBytes())}, [2]any{byz, raw(bi, f.b.ToBytes())}), f.b.Hash())},
		{name: "vote by non-member 9", ev: vote(9, multiOf(scheme, [2]any{hotstuff.ID(9), raw(bi, f.b.ToBytes())}), f.b.Hash())},
		{name: fmt.Sprintf("vote(%d) for an unknown block", byz), ev: vote(byz, f.c.SignBlock(other, bi)[0], other.Hash())},
		{name: fmt.Sprintf("vote(%d) for the genesis block", byz), ev: vote(byz, f.c.SignBlock(hotstuff.GetGenesis(), bi)[0], hotstuff.GetGenesis().Hash())},
		{name: fmt.Sprintf("vote(%d) labelled as 3's", byz), ev: vote(byz, multiOf(scheme, [2]any{hotstuff.ID(3), raw(bi, f.b.ToBytes())}), f.b.Hash())},
	}
	return f
}

// run delivers the messages in order to a fresh collector (replica 1 = leader of view 2).
func (f *c09Fix) run(msgs []c09Msg, async bool) string {
	snd := &fix.Sender{ID: 1}
	L := node.New(node.Opts{ID: 1, N: f.n, Scheme: f.scheme, Rules: rules.NameChainedHotStuff, Sender: snd, Truth: f.c.Truth, Async: async,
		Leader: node.LeaderFunc(func(v hotstuff.View) hotstuff.ID {
			if v <= 1 {
				return 2
			}
			return 1
		})})
	L.AddPeerConfigs(f.c.Cfgs)
	L.StockCommands(9, 1, 4)
	var emitted []hotstuff.QuorumCert
	eventloop.Register(L.Loop, func(m hotstuff.NewViewMsg) {
		if qc, ok := m.SyncInfo.QC(); ok && qc.BlockHash() == f.b.Hash() {
			emitted = append(emitted, qc)
		}
	}, eventloop.Prioritize())
	must := map[hotstuff.ID]bool{}
	may := map[hotstuff.ID]bool{}
	blockKnown := false
	pendingMust := map[hotstuff.ID]bool{} // votes delivered before the block: count once the block is known
	for i, m := range msgs {
		if p, site := safelySite(func() { L.Deliver(m.ev()) }); p != nil {
			return fmt.Sprintf("panic in %s while handling %s: %v", site, m.name, p)
		}
		if m.isProp {
			blockKnown = true
			must[1] = true
			for id := range pendingMust {
				must[id] = true
			}
		} else if m.must != 0 {
			if blockKnown {
				must[m.must] = true
			} else {
				pendingMust[m.must] = true
			}
		}
		if m.must != 0 {
			may[m.must] = true
		}
		for _, id := range m.may {
			may[id] = true
		}
		if len(emitted) > 0 && len(may) < f.q {
			return fmt.Sprintf("after message %d (%s) a QC was emitted although only %d members voted", i+1, m.name, len(may))
		}
	}
	if len(must) >= f.q && len(emitted) == 0 {
		return fmt.Sprintf("valid votes of %d distinct members %v for the block were delivered (quorum %d) but no QC was emitted", len(must), keysOf(must), f.q)
	}
	for _, qc := range emitted {
		if qc.View() != f.b.View() || qc.BlockHash() != f.b.Hash() {
			return "emitted QC names the wrong block or view"
		}
		seen := map[hotstuff.ID]bool{}
		dup := false
		qc.Signature().Participants().ForEach(func(id hotstuff.ID) {
			if seen[id] {
				dup = true
			}
			seen[id] = true
		})
		if dup || len(seen) < f.q {
			return fmt.Sprintf("emitted QC has %d distinct participants (duplicates=%v), quorum %d", len(seen), dup, f.q)
		}
		for id := range seen {
			if !may[id] {
				return fmt.Sprintf("emitted QC lists participant %d whose vote was never delivered", id)
			}
		}
		if err := f.c.Auths[2].VerifyQuorumCert(qc); err != nil {
			return fmt.Sprintf("emitted QC does not verify at an independent replica: %v", err)
		}
	}
	return ""
}

func c09(r *ev.Reporter, _ []string) {
	r.Rule = "(a) clique collector (real VotingMachine + ViewStates + Blockchain + Synchronizer, synchronous verification): every arrival order of {proposal, q-1..n-1 honest votes} + every subset of <=H hostile votes (duplicate, forged, other-block, two-signer, own-signature-twice, non-member, unknown block, old block, relabelled); (c) Kauri interior/root node: every order of child contributions {valid aggregate, partial, overlapping, other-block, empty, wrong view} with the aggregation timer at every position; oracle = QC emitted iff a quorum of distinct members' valid votes was delivered, every emitted QC / contribution verifies; distinct = delivery orders"
	hostMax := 2
	if !r.Quick() {
		hostMax = 3
	}
	var bounds []string
	for _, scheme := range []string{crypto.NameEDDSA, crypto.NameECDSA} {
		if scheme == crypto.NameECDSA && r.Quick() {
			hostMax = 1
		}
		f := newC09Fix(4, scheme)
		n := c09Clique(r, f, hostMax)
		bounds = append(bounds, fmt.Sprintf("clique %s n=4 hostile<=%d: %d orders", scheme, hostMax, n))
	}
	if !r.Quick() {
		f := newC09Fix(7, crypto.NameEDDSA)
		n := c09Clique(r, f, 1)
		bounds = append(bounds, fmt.Sprintf("clique eddsa n=7 hostile<=1 (honest votes in canonical order): %d orders", n))
	}
	nk := c09Kauri(r)
	bounds = append(bounds, nk...)
	bounds = append(bounds, c09Async(r)...)
	r.Extra["bounds_completed"] = bounds
	r.Traces = r.Evaluations
	r.Sample("n=4: vote(2); vote(4) carrying the signatures of 4 and 3; propose(B); vote(3) -> QC must form from {1,2,3}")
	r.Sample("n=4: vote(3); vote(3) again; vote(4) forged signature; propose(B) -> only {1,3} voted, no QC")
	r.Explanation = "Every order is delivered to a fresh replica wired from the production constructors (it is the leader of the next view); votes before the proposal take the real deferred path."
}

func c09Clique(r *ev.Reporter, f *c09Fix, hostMax int) int64 {
	// honest vote sets: every subset of size >= q-2 (so that with the leader's own vote q-1 or more)
	var sets [][]c09Msg
	h := f.honest
	for mask := 0; mask < 1<<len(h); mask++ {
		var s []c09Msg
		for i := range h {
			if mask&(1<<i) != 0 {
				s = append(s, h[i])
			}
		}
		if len(s) >= f.q-2 {
			sets = append(sets, s)
		}
	}
	if f.n > 4 {
		sets = [][]c09Msg{h[:f.q-1], h[:f.q-2], h}
	}
	var hostSets [][]c09Msg
	var rec func(start int, cur []c09Msg)
	rec = func(start int, cur []c09Msg) {
		hostSets = append(hostSets, append([]c09Msg(nil), cur...))
		if len(cur) == hostMax {
			return
		}
		for i := start; i < len(f.host); i++ {
			rec(i+1, append(cur, f.host[i]))
		}
	}
	rec(0, nil)
	type job struct{ msgs []c09Msg }
	var jobs []job
	for _, hs := range sets {
		for _, bs := range hostSets {
			m := append(append([]c09Msg{f.prop}, hs...), bs...)
			jobs = append(jobs, job{m})
			if len(bs) <= 1 {
				// the same with a view change by timeout certificate at every position
				jobs = append(jobs, job{append(append([]c09Msg(nil), m...), f.tc)})
			}
		}
	}
	var total int64
	var mu = make(chan struct{}, 1)
	par.Each(len(jobs), func(ji int) {
		msgs := jobs[ji].msgs
		var cnt int64
		perm := make([]c09Msg, 0, len(msgs))
		used := make([]bool, len(msgs))
		var rec2 func()
		rec2 = func() {
			if r.Violations() > 6 {
				return
			}
			if len(perm) == len(msgs) {
				cnt++
				if msg := f.run(perm, false); msg != "" {
					names := make([]string, len(perm))
					for i, m := range perm {
						names[i] = m.name
					}
					r.Violation(fmt.Sprintf("C09 clique: %s", classify(msg)), fmt.Sprintf("%s n=%d, order [%s]: %s", f.scheme, f.n, strings.Join(names, "; "), msg), map[string]any{"scheme": f.scheme, "n": f.n, "order": names})
				}
				return
			}
			for i := range msgs {
				if used[i] {
					continue
				}
				// n>4: honest votes only in canonical relative order
				if f.n > 4 && msgs[i].must > 1 && !msgs[i].isProp {
					skip := false
					for j := 0; j < i; j++ {
						if !used[j] && msgs[j].must > 1 && !msgs[j].isProp {
							skip = true
						}
					}
					if skip {
						continue
					}
				}
				used[i] = true
				perm = append(perm, msgs[i])
				rec2()
				perm = perm[:len(perm)-1]
				used[i] = false
			}
		}
		rec2()
		r.Count(cnt, cnt*int64(len(msgs)), cnt, cnt)
		mu <- struct{}{}
		total += cnt
		<-mu
	})
	return total
}

// ---- (c) Kauri ----

type kContrib struct {
	name string
	from hotstuff.ID
	view hotstuff.View
	sig  hotstuff.QuorumSignature
	adds []hotstuff.ID // signers a valid, non-overlapping merge adds
	ok   bool          // well formed (valid signatures over the block, right view)
	tick bool          // aggregation timer expiry instead of a contribution
}

func c09Kauri(r *ev.Reporter) []string {
	var out []string
	for _, n := range []int{4, 7} {
		if n == 7 && r.Quick() {
			continue
		}
		c := fix.NewCluster(n, crypto.NameEDDSA, fix.Opts{})
		b := hotstuff.NewBlock(hotstuff.GetGenesis().Hash(), fix.GenesisQC(), fix.Batch(fix.Cmd(1, 1)), 1, 1)
		other := hotstuff.NewBlock(hotstuff.GetGenesis().Hash(), fix.GenesisQC(), fix.Batch(fix.Cmd(1, 2)), 1, 1)
		c.StoreAll(b)
		pos := make([]hotstuff.ID, n)
		for i := range pos {
			pos[i] = hotstuff.ID(i + 1)
		}
		for _, me := range []hotstuff.ID{1, 2} { // root and an interior node
			tr0 := tree.NewSimple(me, 2, pos)
			children := tr0.ReplicaChildren()
			if len(children) == 0 {
				continue
			}
			// contribution alphabet per child
			var alpha []kContrib
			for _, ch := range children {
				sub := append([]hotstuff.ID{ch}, tree.NewSimple(ch, 2, pos).SubTree()...)
				idx := make([]int, len(sub))
				for i, id := range sub {
					idx[i] = int(id) - 1
				}
				full := c.Combine(c.SignBlock(b, idx...)...)
				alpha = append(alpha, kContrib{name: fmt.Sprintf("agg(%v) from %d", sub, ch), from: ch, view: 1, sig: full, adds: sub, ok: true})
				if len(sub) > 1 {
					alpha = append(alpha, kContrib{name: fmt.Sprintf("partial(%d) from %d", ch, ch), from: ch, view: 1, sig: c.SignBlock(b, int(ch)-1)[0], adds: []hotstuff.ID{ch}, ok: true})
				}
				alpha = append(alpha, kContrib{name: fmt.Sprintf("other-block from %d", ch), from: ch, view: 1, sig: c.SignBlock(other, int(ch)-1)[0]})
				alpha = append(alpha, kContrib{name: fmt.Sprintf("wrong-view from %d", ch), from: ch, view: 2, sig: c.SignBlock(b, int(ch)-1)[0]})
				alpha = append(alpha, kContrib{name: fmt.Sprintf("no-signature from %d", ch), from: ch, view: 1, sig: nil})
			}
			alpha = append(alpha, kContrib{name: fmt.Sprintf("overlap(own %d) from %d", me, children[0]), from: children[0], view: 1, sig: c.SignBlock(b, int(me)-1)[0], adds: nil, ok: true})
			alpha = append(alpha, kContrib{name: "timer", tick: true})
			depth := 4
			if !r.Quick() {
				depth = 5
			}
			var cnt int64
			seqs := make([]int, 0, depth)
			var rec func()
			rec = func() {
				if len(seqs) > 0 {
					cnt++
					if msg := kauriRun(c, b, n, me, pos, alpha, seqs); msg != "" {
						names := make([]string, len(seqs))
						for i, s := range seqs {
							names[i] = alpha[s].name
						}
						r.Violation("C09 kauri: "+classify(msg), fmt.Sprintf("n=%d node %d, contributions [%s]: %s", n, me, strings.Join(names, "; "), msg), map[string]any{"n": n, "node": me, "order": names})
					}
				}
				if len(seqs) == depth || r.Violations() > 6 {
					return
				}
				for i := range alpha {
					seqs = append(seqs, i)
					rec()
					seqs = seqs[:len(seqs)-1]
				}
			}
			rec()
			r.Count(cnt, cnt*int64(depth), cnt, cnt)
			out = append(out, fmt.Sprintf("kauri n=%d node=%d alphabet=%d depth<=%d: %d sequences", n, me, len(alpha), depth, cnt))
		}
	}
	r.Sample("kauri n=4 root: agg([2 4]) from 2; agg([3]) from 3 -> QC from {1,2,3,4}; with 'other-block from 3' first nothing is merged")
	return out
}

// kauriRun feeds the contributions to a fresh Kauri node that has just begun aggregation for b.
func kauriRun(c *fix.Cluster, b *hotstuff.Block, n int, me hotstuff.ID, pos []hotstuff.ID, alpha []kContrib, seqs []int) string {
	lg := &fix.NopLogger{}
	el := eventloop.New(lg, 1000)
	snd := &fix.Sender{ID: me}
	tr := tree.NewSimple(me, 2, pos)
	tr.SetTreeHeightWaitTime(1000 * time.Hour)
	cfg := core.NewRuntimeConfig(me, fix.Key(crypto.NameEDDSA, me), core.WithSyncVerification(), core.WithKauriTree(tr))
	base, _ := crypto.New(cfg, crypto.NameEDDSA)
	for _, o := range c.Cfgs {
		cfg.AddReplica(&hotstuff.ReplicaInfo{ID: o.ID(), PubKey: o.PrivateKey().Public()})
	}
	chain := blockchain.New(el, lg, snd)
	chain.Store(b)
	auth := cert.NewAuthority(cfg, chain, base)
	k := comm.NewKauri(lg, el, cfg, chain, auth, snd)
	var qcs []hotstuff.QuorumCert
	eventloop.Register(el, func(m hotstuff.NewViewMsg) {
		if qc, ok := m.SyncInfo.QC(); ok {
			qcs = append(qcs, qc)
		}
	})
	drain := func() {
		for el.Tick(context.Background()) {
		}
	}
	el.AddEvent(hotstuff.ReplicaConnectedEvent{Ctx: context.Background()})
	drain()
	pc, err := auth.CreatePartialCert(b)
	if err != nil {
		return "harness: " + err.Error()
	}
	if err := k.Disseminate(&hotstuff.ProposeMsg{ID: 1, Block: b}, pc); err != nil {
		return "harness: " + err.Error()
	}
	merged := map[hotstuff.ID]bool{me: true}
	q := hotstuff.QuorumSize(n)
	quorumAt := -1
	if len(merged) >= q {
		quorumAt = 0
	}
	for i, si := range seqs {
		a := alpha[si]
		var evn any
		if a.tick {
			evn = comm.VerifWaitTimerExpired(1)
		} else {
			evn = &kauripb.Contribution{ID: uint32(a.from), View: uint64(a.view), Signature: hotstuffpb.QuorumSignatureToProto(a.sig)}
			if a.sig == nil {
				evn = &kauripb.Contribution{ID: uint32(a.from), View: uint64(a.view)}
			}
		}
		if p, site := safelySite(func() { el.AddEvent(evn); drain() }); p != nil {
			return fmt.Sprintf("panic in %s on %s: %v", site, a.name, p)
		}
		if a.tick {
			// after the timer the node has flushed and reset; later contributions start a new aggregate
			merged = map[hotstuff.ID]bool{}
			continue
		}
		if a.ok && a.view == 1 {
			overlap := false
			for _, id := range a.adds {
				if merged[id] {
					overlap = true
				}
			}
			if len(a.adds) == 0 {
				overlap = true
			}
			if !overlap {
				for _, id := range a.adds {
					merged[id] = true
				}
				if len(merged) >= q && quorumAt < 0 {
					quorumAt = i + 1
				}
			}
		}
	}
	// every emitted QC / contribution verifies and lists only merged, distinct signers
	for _, qc := range qcs {
		if qc.BlockHash() != b.Hash() || qc.View() != b.View() {
			return "emitted QC names the wrong block or view"
		}
		if err := c.Auths[(int(me)+1)%n].VerifyQuorumCert(qc); err != nil {
			return fmt.Sprintf("emitted QC does not verify at another replica: %v", err)
		}
	}
	for _, ct := range snd.Contribs {
		if ct.Sig == nil {
			continue // flushed after a reset: nothing aggregated
		}
		if err := c.Auths[(int(me)+1)%n].Verify(ct.Sig, b.ToBytes()); err != nil {
			return fmt.Sprintf("contribution handed to the parent does not verify: %v", err)
		}
	}
	// a QC exactly when a quorum of valid, non-overlapping contributions was merged before any reset
	sawTick := false
	for _, si := range seqs {
		if alpha[si].tick {
			sawTick = true
		}
	}
	if !sawTick {
		if quorumAt >= 0 && len(qcs) == 0 && me == 1 {
			return fmt.Sprintf("valid contributions of %d distinct members were merged (quorum %d) but no QC was emitted", len(merged), q)
		}
		if quorumAt < 0 && len(qcs) > 0 {
			return fmt.Sprintf("a QC was emitted with only %d members merged (quorum %d)", len(merged), q)
		}
	}
	_ = sort.Ints
	return ""
}
