package props

import (
	"fmt"
	"sort"
	"strings"

	"github.com/relab/hotstuff"
	"github.com/relab/hotstuff/protocol/rules"
	"github.com/relab/hotstuff/security/crypto"
	"github.com/relab/hotstuff/zverif/dump"
	"github.com/relab/hotstuff/zverif/ev"
	"github.com/relab/hotstuff/zverif/fix"
	"github.com/relab/hotstuff/zverif/node"
	"github.com/relab/hotstuff/zverif/seq"
)

func init() { Registry["C08"] = c08 }

// c08Kind is one letter of the timeout-message alphabet.
type c08Kind struct {
	name   string
	local  bool        // R's own local timeout in its current view
	sender hotstuff.ID // claimed sender (the server sets it from the connection)
	off    int         // view = v0 + off
	sig    string      // good | relay (signature made by another replica) | wrongview | absent
	msgsig string      // good | garbage | absent   (aggregate rule only)
	si     string      // gen | tc  (tc: valid TC(v0) in the sync info)
}

type c08Cfg struct {
	n     int
	agg   bool
	v0    hotstuff.View
	cache uint
	kinds []c08Kind
	c     *fix.Cluster // signing fixture (all replicas' keys)
}

func c08Alphabet(n int, agg bool, v0 hotstuff.View, withAbsent bool) []c08Kind {
	var ks []c08Kind
	offs := []int{0, 1, 50}
	if v0 > 1 {
		offs = append([]int{-1}, offs...)
	}
	ks = append(ks, c08Kind{name: "local-timeout", local: true})
	for s := 2; s <= n; s++ {
		for _, o := range offs {
			ks = append(ks, c08Kind{name: fmt.Sprintf("T(%d,v0%+d)", s, o), sender: hotstuff.ID(s), off: o, sig: "good", msgsig: "good", si: "gen"})
		}
	}
	b := hotstuff.ID(n) // the Byzantine sender
	for _, o := range []int{0, 1} {
		ks = append(ks, c08Kind{name: fmt.Sprintf("T(%d,v0%+d,sig-of-2)", b, o), sender: b, off: o, sig: "relay", msgsig: "good", si: "gen"})
		ks = append(ks, c08Kind{name: fmt.Sprintf("T(%d,v0%+d,sig-over-other-view)", b, o), sender: b, off: o, sig: "wrongview", msgsig: "good", si: "gen"})
		if withAbsent {
			ks = append(ks, c08Kind{name: fmt.Sprintf("T(%d,v0%+d,unsigned)", b, o), sender: b, off: o, sig: "absent", msgsig: "good", si: "gen"})
		}
		if agg {
			ks = append(ks, c08Kind{name: fmt.Sprintf("T(%d,v0%+d,garbage-msgsig)", b, o), sender: b, off: o, sig: "good", msgsig: "garbage", si: "gen"})
			ks = append(ks, c08Kind{name: fmt.Sprintf("T(%d,v0%+d,no-msgsig)", b, o), sender: b, off: o, sig: "good", msgsig: "absent", si: "gen"})
			if o == 0 {
				ks = append(ks, c08Kind{name: fmt.Sprintf("T(%d,v0%+d,no-qc)", b, o), sender: b, off: o, sig: "good", msgsig: "noqc", si: "none"})
			}
		}
	}
	ks = append(ks, c08Kind{name: "T(2,v0+1,si=TC(v0))", sender: 2, off: 1, sig: "good", msgsig: "good", si: "tc"})
	return ks
}

// c08Sys is one live replica R (id 1) plus the reference model.
type c08Sys struct {
	cfg   *c08Cfg
	r     *node.Node
	snd   *fix.Sender
	cur   hotstuff.View                     // model: R's view
	s     map[hotstuff.View]map[hotstuff.ID]bool // model: senders of correctly signed timeouts per view (must count)
	smax  map[hotstuff.View]map[hotstuff.ID]bool // model: s plus replicas whose genuine signature was relayed by another sender (may count)
	done  map[hotstuff.View]bool
	siTC  hotstuff.TimeoutCert
	trace []string
}

func (cfg *c08Cfg) rulesName() string {
	if cfg.agg {
		return rules.NameFastHotStuff
	}
	return rules.NameChainedHotStuff
}

func (cfg *c08Cfg) newSys() *c08Sys {
	c := cfg.c
	snd := &fix.Sender{ID: 1}
	r := node.New(node.Opts{ID: 1, N: cfg.n, Scheme: crypto.NameEDDSA, Rules: cfg.rulesName(), Leader: node.LeaderFunc(func(hotstuff.View) hotstuff.ID { return 2 }),
		Cache: cfg.cache, Sender: snd, Truth: c.Truth})
	r.AddPeerConfigs(c.Cfgs)
	r.StockCommands(9, 1, 4)
	sys := &c08Sys{cfg: cfg, r: r, snd: snd, cur: 1, s: map[hotstuff.View]map[hotstuff.ID]bool{}, smax: map[hotstuff.View]map[hotstuff.ID]bool{}, done: map[hotstuff.View]bool{}}
	// bring R to v0 with real certificates (TCs signed by 2..q+1)
	for v := hotstuff.View(1); v < cfg.v0; v++ {
		r.Deliver(hotstuff.NewViewMsg{ID: 2, SyncInfo: hotstuff.NewSyncInfoWith(cfg.tc(v))})
		sys.cur++
	}
	if r.VS.View() != cfg.v0 {
		ev.Broken("C08: could not bring replica to view %d (at %d)", cfg.v0, r.VS.View())
	}
	snd.Sent = nil
	sys.siTC = cfg.tc(cfg.v0)
	return sys
}

func (cfg *c08Cfg) tc(v hotstuff.View) hotstuff.TimeoutCert {
	q := hotstuff.QuorumSize(cfg.n)
	idx := make([]int, 0, q)
	for i := 1; i <= q; i++ { // replicas 2..q+1
		idx = append(idx, i%cfg.n)
	}
	sort.Ints(idx)
	return hotstuff.NewTimeoutCert(cfg.c.Combine(cfg.c.SignBytes(v.ToBytes(), idx...)...), v)
}

func (s *c08Sys) build(k c08Kind) hotstuff.TimeoutMsg {
	c := s.cfg.c
	view := hotstuff.View(int(s.cfg.v0) + k.off)
	m := hotstuff.TimeoutMsg{ID: k.sender, View: view}
	si := hotstuff.NewSyncInfoWith(fix.GenesisQC())
	if k.si == "tc" {
		si.SetTC(s.siTC)
	}
	if k.si == "none" {
		si = hotstuff.NewSyncInfo()
	}
	m.SyncInfo = si
	idx := int(k.sender) - 1
	switch k.sig {
	case "good":
		m.ViewSignature = c.SignBytes(view.ToBytes(), idx)[0]
	case "relay":
		m.ViewSignature = c.SignBytes(view.ToBytes(), 1)[0] // made by replica 2
	case "wrongview":
		m.ViewSignature = c.SignBytes((view + 7).ToBytes(), idx)[0]
	case "absent":
		m.ViewSignature = nil
	}
	if s.cfg.agg {
		switch k.msgsig {
		case "good", "noqc":
			m.MsgSignature = c.SignBytes(m.ToBytes(), idx)[0]
		case "garbage":
			m.MsgSignature = crypto.NewMulti(crypto.RestoreEDDSASignature(make([]byte, 64), k.sender))
		}
	}
	return m
}

func (k c08Kind) valid(agg bool) bool {
	return k.sig == "good" && (!agg || k.msgsig == "good")
}

func (s *c08Sys) Apply(op int) string {
	k := s.cfg.kinds[op]
	s.trace = append(s.trace, k.name)
	q := hotstuff.QuorumSize(s.cfg.n)
	before := s.r.VS.View()
	if before != s.cur {
		return fmt.Sprintf("harness: model view %d != real view %d before step", s.cur, before)
	}
	s.snd.Sent = nil
	var (
		sender hotstuff.ID
		view   hotstuff.View
		valid  bool
		siMove bool
	)
	var pan any
	if k.local {
		sender, view, valid = 1, s.cur, true
		pan = safely(func() { s.r.Deliver(hotstuff.TimeoutEvent{View: s.cur}) })
	} else {
		m := s.build(k)
		sender, view, valid = k.sender, m.View, k.valid(s.cfg.agg)
		pan = safely(func() { s.r.Deliver(m) })
		// a message whose view signature does not verify is dropped before its sync info is used;
		// a relayed signature is accepted by the code today, its sync info (genesis) has no effect
		if k.si == "tc" && (k.sig == "good") && s.cur <= s.cfg.v0 {
			siMove = true
		}
	}
	if pan != nil {
		return fmt.Sprintf("panic while handling %s: %v", k.name, pan)
	}
	if siMove {
		s.cur++
	}
	// model: count correctly signed messages for views not yet left. A genuine signature of
	// replica 2 relayed under another sender id is "may count": it must never spoil a quorum.
	expect := map[hotstuff.View]bool{}
	add := func(m map[hotstuff.View]map[hotstuff.ID]bool, v hotstuff.View, id hotstuff.ID) {
		if m[v] == nil {
			m[v] = map[hotstuff.ID]bool{}
		}
		m[v][id] = true
	}
	if view >= s.cur {
		if valid {
			was := len(s.s[view])
			add(s.s, view, sender)
			add(s.smax, view, sender)
			if was < q && len(s.s[view]) == q && !s.done[view] {
				expect[view] = true
			}
		} else if !k.local && k.sig == "relay" && (!s.cfg.agg || k.msgsig == "good") {
			add(s.smax, view, 2)
			add(s.smax, view, sender)
		}
	}
	// observe: own-assembled TCs among the sync infos sent to the next leader
	seen := map[hotstuff.View]hotstuff.SyncInfo{}
	for _, x := range s.snd.Sent {
		nv, ok := x.(fix.NewViewTo)
		if !ok {
			continue
		}
		tc, ok := nv.SI.TC()
		if !ok || tc.Signature() == nil {
			continue
		}
		if k.si == "tc" && tc.View() == s.siTC.View() && string(tc.ToBytes()) == string(s.siTC.ToBytes()) {
			continue // the certificate received in the sync info, passed on
		}
		seen[tc.View()] = nv.SI
	}
	for v := range expect {
		if _, ok := seen[v]; !ok {
			return fmt.Sprintf("quorum of correctly signed timeouts for view %d (senders %v) reached while in view %d, but no timeout certificate was assembled", v, keysOf(s.s[v]), s.cur)
		}
	}
	for v, si := range seen {
		if !expect[v] && !s.done[v] {
			if len(s.smax[v]) >= q {
				s.done[v] = true // allowed: quorum of genuine signatures, one of them relayed
			} else {
				return fmt.Sprintf("timeout certificate for view %d assembled with only %v correctly signed timeouts for that view", v, keysOf(s.s[v]))
			}
		}
		tc, _ := si.TC()
		// built from those messages only, verifies at every other replica
		bad := ""
		tc.Signature().Participants().ForEach(func(id hotstuff.ID) {
			if !s.smax[v][id] {
				bad = fmt.Sprintf("TC(%d) contains signer %d whose timeout for that view was never received", v, id)
			}
		})
		if bad != "" {
			return bad
		}
		for i := 1; i < s.cfg.n; i++ {
			if err := s.cfg.c.Auths[i].VerifyTimeoutCert(tc); err != nil {
				return fmt.Sprintf("TC(%d) assembled by the replica does not verify at replica %d: %v", v, i+1, err)
			}
			if s.cfg.agg {
				agg, ok := si.AggQC()
				if !ok {
					return fmt.Sprintf("aggregate rule: sync info for TC(%d) has no aggregate QC", v)
				}
				hq, err := s.cfg.c.Auths[i].VerifyAggregateQC(agg)
				if err != nil {
					return fmt.Sprintf("aggregate QC assembled for view %d does not verify at replica %d: %v", v, i+1, err)
				}
				if hq.BlockHash() != hotstuff.GetGenesis().Hash() {
					return fmt.Sprintf("aggregate QC for view %d reports high QC %v, attested QCs are all genesis", v, hq)
				}
			}
		}
		if expect[v] && v == s.cfg.v0 && s.cfg.v0 == 1 {
			if msg := s.cfg.movesFresh(si); msg != "" {
				return msg
			}
		}
	}
	// view movement
	after := s.r.VS.View()
	dontCare := false
	for v := range seen {
		if !expect[v] {
			dontCare = true // repeated certificate for an already certified view: unspecified
		}
	}
	want := s.cur
	for v := range expect {
		s.done[v] = true
		if v >= s.cur {
			want = s.cur + 1
		}
	}
	if !dontCare && after != want {
		return fmt.Sprintf("view after step is %d, expected %d (before %d)", after, want, before)
	}
	s.cur = after
	// views that were left are no longer tracked
	for v := range s.s {
		if v < s.cur {
			delete(s.s, v)
		}
	}
	for v := range s.smax {
		if v < s.cur {
			delete(s.smax, v)
		}
	}
	return ""
}

func keysOf(m map[hotstuff.ID]bool) []int {
	var ks []int
	for k := range m {
		ks = append(ks, int(k))
	}
	sort.Ints(ks)
	return ks
}

// movesFresh: the emitted sync info moves a fresh replica that is still in view 1 to view 2.
func (cfg *c08Cfg) movesFresh(si hotstuff.SyncInfo) string {
	snd := &fix.Sender{ID: 3}
	x := node.New(node.Opts{ID: 3, N: cfg.n, Scheme: crypto.NameEDDSA, Rules: cfg.rulesName(), Leader: node.LeaderFunc(func(hotstuff.View) hotstuff.ID { return 2 }), Sender: snd})
	x.AddPeerConfigs(cfg.c.Cfgs)
	x.Deliver(hotstuff.NewViewMsg{ID: 1, SyncInfo: si, FromNetwork: true})
	if x.VS.View() != 2 {
		return fmt.Sprintf("the assembled certificate for view 1 leaves a fresh replica in view %d", x.VS.View())
	}
	return ""
}

var c08DumpOpts = &dump.Options{
	SortSlices: map[string]bool{"github.com/relab/hotstuff/protocol/synchronizer.timeoutCollector.timeouts": true},
	SkipFields: map[string]bool{
		"github.com/relab/hotstuff/protocol/synchronizer.Synchronizer.eventLoop": true, "github.com/relab/hotstuff/protocol/synchronizer.Synchronizer.logger": true,
		"github.com/relab/hotstuff/protocol/synchronizer.Synchronizer.config": true, "github.com/relab/hotstuff/protocol/synchronizer.Synchronizer.auth": true,
		"github.com/relab/hotstuff/protocol/synchronizer.Synchronizer.duration": true, "github.com/relab/hotstuff/protocol/synchronizer.Synchronizer.leaderRotation": true,
		"github.com/relab/hotstuff/protocol/synchronizer.Synchronizer.timeoutRules": true, "github.com/relab/hotstuff/protocol/synchronizer.Synchronizer.voter": true,
		"github.com/relab/hotstuff/protocol/synchronizer.Synchronizer.proposer": true, "github.com/relab/hotstuff/protocol/synchronizer.Synchronizer.state": true,
		"github.com/relab/hotstuff/protocol/synchronizer.Synchronizer.sender": true, "github.com/relab/hotstuff/protocol/synchronizer.Synchronizer.timer": true,
		"github.com/relab/hotstuff/protocol/synchronizer.timeoutCollector.config": true,
	},
}

func (s *c08Sys) Key() string {
	var sb strings.Builder
	fmt.Fprintf(&sb, "v%d|tc%d|", s.r.VS.View(), s.r.VS.HighTC().View())
	sb.WriteString(dump.String(s.r.Sync, c08DumpOpts))
	// model part
	var vs []int
	for v := range s.s {
		vs = append(vs, int(v))
	}
	sort.Ints(vs)
	for _, v := range vs {
		fmt.Fprintf(&sb, "|S%d%v", v, keysOf(s.s[hotstuff.View(v)]))
	}
	vs = vs[:0]
	for v := range s.smax {
		vs = append(vs, int(v))
	}
	sort.Ints(vs)
	for _, v := range vs {
		fmt.Fprintf(&sb, "|M%d%v", v, keysOf(s.smax[hotstuff.View(v)]))
	}
	var ds []int
	for v := range s.done {
		ds = append(ds, int(v))
	}
	sort.Ints(ds)
	fmt.Fprintf(&sb, "|D%v", ds)
	return sb.String()
}

func c08(r *ev.Reporter, _ []string) {
	r.Rule = "BFS/DFS over all sequences of timeout messages (senders x views {v0-1,v0,v0+1,v0+50} x signature variants x sync-info variants + the replica's own local timeout) delivered to a real wired Synchronizer, (i) unmerged to depth D1 and (ii) with canonical-state merging (collector as multiset) to depth D2; oracle = per-view set of correctly signed senders; distinct = canonical states"
	type run struct {
		n         int
		agg       bool
		v0        hotstuff.View
		cache     uint
		d1, d2    int
	}
	runs := []run{
		{4, false, 1, 0, 3, 7}, {4, false, 2, 0, 0, 6}, {4, true, 1, 0, 3, 6}, {4, false, 1, 8, 0, 5},
	}
	if !r.Quick() {
		runs = []run{
			{4, false, 1, 0, 4, 9}, {4, false, 2, 0, 3, 8}, {4, true, 1, 0, 4, 8}, {4, true, 2, 0, 0, 7}, {4, false, 1, 8, 3, 7},
			{7, false, 1, 0, 0, 8}, {7, true, 1, 0, 0, 7},
		}
	}
	var bounds []string
	for _, ru := range runs {
		cfg := &c08Cfg{n: ru.n, agg: ru.agg, v0: ru.v0, cache: ru.cache}
		cfg.c = fix.NewCluster(ru.n, crypto.NameEDDSA, fix.Opts{AggQC: ru.agg})
		cfg.kinds = c08Alphabet(ru.n, ru.agg, ru.v0, ru.cache == 0)
		desc := fmt.Sprintf("n=%d aggregate=%v v0=%d cache=%d", ru.n, ru.agg, ru.v0, ru.cache)
		onFail := func(ops []int, msg string) {
			names := make([]string, len(ops))
			for i, o := range ops {
				names[i] = cfg.kinds[o].name
			}
			r.Violation(fmt.Sprintf("C08 %s: %s", map[bool]string{false: "simple", true: "aggregate"}[ru.agg], classify(msg)),
				fmt.Sprintf("%s, sequence [%s]: %s", desc, strings.Join(names, "; "), msg),
				map[string]any{"config": desc, "ops": ops, "names": names})
		}
		stop := func() bool { return r.Violations() > 6 }
		for pass, d := range []int{ru.d1, ru.d2} {
			if d == 0 {
				continue
			}
			st := seq.Run(seq.Config{NumOps: len(cfg.kinds), MaxDepth: d, Dedup: pass == 1, New: func() seq.System { return cfg.newSys() }, OnFail: onFail, Stop: stop, MaxStates: 150_000_000})
			r.Count(st.States, st.Transitions, st.Sequences+st.Transitions, st.States)
			bounds = append(bounds, fmt.Sprintf("%s merged=%v depth=%d alphabet=%d states=%d transitions=%d replayed_ops=%d", desc, pass == 1, d, len(cfg.kinds), st.States, st.Transitions, st.Replays))
			if st.Stopped {
				r.Cap(fmt.Sprintf("%s depth %d: stopped early (violations reported, or the cap of 150M kept states reached at %d states)", desc, d, st.States))
			}
		}
	}
	r.Extra["bounds_completed"] = bounds
	r.Sample("n=4 v0=1: T(4,v0+50); T(2,v0+0); T(3,v0+0) -> no TC (two view-1 timeouts), then local-timeout -> TC(1) from {1,2,3}, view 2")
	r.Sample("n=4 v0=1: T(4,v0+0,sig-of-2); T(2,v0+0); T(3,v0+0); local-timeout -> TC(1) must still form from {1,2,3}")
	r.Traces = r.Transitions
	r.Assume("replica under test is never the next leader (fixed leader 2), so every assembled certificate is observable as a new-view message")
	r.Assume("after a view's first certificate, further certificates for the same view are unspecified (don't-care)")
	r.Explanation = "Every transition is one real Synchronizer handler run on a replica wired from the production constructors; signatures are real EdDSA signatures by the fixture's replicas."
}
