package props

import (
	"fmt"

	"github.com/relab/hotstuff"
	"github.com/relab/hotstuff/zverif/ev"
)

func init() { Registry["C20"] = c20 }

// c20: quorum intersection and availability for every n (DESIGN §4 C20).
func c20(r *ev.Reporter, _ []string) {
	maxN := 1_000_000
	if !r.Quick() {
		maxN = 10_000_000
	}
	r.Rule = "every n in 1..N: f=NumFaulty(n), q=QuorumSize(n) against f=max{f:3f<n}, 2q-n>=f+1, q<=n-f, minimality; distinct = distinct (n,f,q) triples with f>=1; plus threshold use through certificate checks / collectors for n in 1..13"
	for n := 1; n <= maxN; n++ {
		f := hotstuff.NumFaulty(n)
		q := hotstuff.QuorumSize(n)
		r.Evaluations++
		r.States++
		r.Transitions++
		if f >= 1 {
			r.Nontrivial++
		}
		// reference: f is the largest integer with 3f < n  <=>  3f < n <= 3(f+1)
		okF := 3*f < n && 3*(f+1) >= n
		switch {
		case !okF:
			r.Violation(fmt.Sprintf("NumFaulty n=%d", n), fmt.Sprintf("NumFaulty(%d)=%d is not max{f: 3f<n}", n, f), map[string]any{"n": n})
		case 2*q-n < f+1:
			r.Violation(fmt.Sprintf("intersection n=%d", n), fmt.Sprintf("n=%d f=%d q=%d: 2q-n=%d < f+1", n, f, q, 2*q-n), map[string]any{"n": n})
		case q > n-f:
			r.Violation(fmt.Sprintf("availability n=%d", n), fmt.Sprintf("n=%d f=%d q=%d > n-f", n, f, q), map[string]any{"n": n})
		case 2*(q-1)-n >= f+1:
			r.Violation(fmt.Sprintf("minimality n=%d", n), fmt.Sprintf("n=%d f=%d q=%d: q-1 also intersects", n, f, q), map[string]any{"n": n})
		}
		if n <= 13 || n == maxN {
			r.Sample(map[string]int{"n": n, "f": f, "q": q})
		}
		if r.Violations() > 5 {
			break
		}
	}
	r.Extra["max_n"] = maxN
	thresholdUse(r, 13)
	r.Traces = r.Evaluations
	r.Explanation = "Decision is the enumeration of all n up to max_n on the real functions. Commentary for all n: with f=floor((n-1)/3) and q=ceil((n+f+1)/2), 2q>=n+f+1 gives 2q-n>=f+1; q<=n-f iff n+f+1<=2(n-f) (+1 slack for the ceiling) iff 3f+1<=n which holds by definition of f; float64 is exact below 2^53."
}

// thresholdUse checks that the components forming / checking certificates use QuorumSize(n).
func thresholdUse(r *ev.Reporter, maxN int) {
	for n := 1; n <= maxN; n++ {
		thresholdCerts(r, n)
	}
}
