package props

import (
	"fmt"
	"sort"

	"github.com/relab/hotstuff"
	"github.com/relab/hotstuff/internal/tree"
	"github.com/relab/hotstuff/zverif/ev"
)

func init() { Registry["C17"] = c17 }

func idsSorted(ids []hotstuff.ID) []hotstuff.ID {
	o := append([]hotstuff.ID(nil), ids...)
	sort.Slice(o, func(i, j int) bool { return o[i] < o[j] })
	return o
}

// checkTree checks one (assignment, bf) from every replica's vantage point. Returns "" if consistent.
func checkTree(pos []hotstuff.ID, bf int) string {
	n := len(pos)
	trees := map[hotstuff.ID]*tree.Tree{}
	for _, id := range pos {
		trees[id] = tree.NewSimple(id, bf, append([]hotstuff.ID(nil), pos...))
	}
	// relation built from every replica's own Parent()
	parent := map[hotstuff.ID]hotstuff.ID{}
	var roots []hotstuff.ID
	for _, id := range pos {
		p, ok := trees[id].Parent()
		if !ok {
			roots = append(roots, id)
			if p != id {
				return fmt.Sprintf("root %d reports parent %d", id, p)
			}
			continue
		}
		if _, known := trees[p]; !known {
			return fmt.Sprintf("parent of %d is unknown replica %d", id, p)
		}
		parent[id] = p
	}
	if len(roots) != 1 {
		return fmt.Sprintf("%d roots: %v", len(roots), roots)
	}
	root := roots[0]
	depth := map[hotstuff.ID]int{root: 0}
	for _, id := range pos {
		// walk to the root; must terminate within n steps (no cycle)
		d, cur := 0, id
		for cur != root {
			cur = parent[cur]
			d++
			if d > n {
				return fmt.Sprintf("cycle above %d", id)
			}
		}
		depth[id] = d
	}
	maxDepth := 0
	children := map[hotstuff.ID][]hotstuff.ID{}
	for id, p := range parent {
		children[p] = append(children[p], id)
		if depth[id] > maxDepth {
			maxDepth = depth[id]
		}
	}
	desc := map[hotstuff.ID][]hotstuff.ID{}
	for _, id := range pos {
		for cur := id; cur != root; {
			cur = parent[cur]
			desc[cur] = append(desc[cur], id)
		}
	}
	for _, me := range pos {
		t := trees[me]
		if t.Root() != root {
			return fmt.Sprintf("replica %d sees root %d, relation has %d", me, t.Root(), root)
		}
		for _, x := range pos {
			if t.IsRoot(x) != (x == root) {
				return fmt.Sprintf("replica %d: IsRoot(%d)=%v", me, x, t.IsRoot(x))
			}
			got := idsSorted(t.ChildrenOf(x))
			want := idsSorted(children[x])
			if fmt.Sprint(got) != fmt.Sprint(want) {
				return fmt.Sprintf("replica %d: ChildrenOf(%d)=%v, relation has %v", me, x, got, want)
			}
		}
		if got, want := idsSorted(t.ReplicaChildren()), idsSorted(children[me]); fmt.Sprint(got) != fmt.Sprint(want) {
			return fmt.Sprintf("replica %d: ReplicaChildren=%v want %v", me, got, want)
		}
		if got, want := idsSorted(t.SubTree()), idsSorted(desc[me]); fmt.Sprint(got) != fmt.Sprint(want) {
			return fmt.Sprintf("replica %d: SubTree=%v, descendants are %v", me, got, want)
		}
		var wantPeers []hotstuff.ID
		if me != root {
			wantPeers = children[parent[me]]
		}
		if got, want := idsSorted(t.PeersOf()), idsSorted(wantPeers); fmt.Sprint(got) != fmt.Sprint(want) {
			return fmt.Sprintf("replica %d: PeersOf=%v, parent's children are %v", me, got, want)
		}
		if t.TreeHeight() != maxDepth+1 {
			return fmt.Sprintf("replica %d: TreeHeight=%d, relation depth+1=%d", me, t.TreeHeight(), maxDepth+1)
		}
		if got, want := t.ReplicaHeight(), maxDepth+1-depth[me]; got != want {
			return fmt.Sprintf("replica %d: ReplicaHeight=%d want %d (depth %d of %d)", me, got, want, depth[me], maxDepth)
		}
	}
	return ""
}

func c17(r *ev.Reporter, _ []string) {
	r.Rule = "n in 1..40 x bf 2..6: identity, reversed, n rotations, all single transpositions; all permutations for n<=P; from every replica's own Tree; distinct = distinct (assignment,bf)"
	permMax := 7
	if !r.Quick() {
		permMax = 8
	}
	one := func(pos []hotstuff.ID, bf int) {
		var msg string
		if p := safely(func() { msg = checkTree(pos, bf) }); p != nil {
			msg = fmt.Sprintf("panic: %v", p)
		}
		r.Evaluations++
		r.States++
		r.Transitions += int64(len(pos))
		if len(pos) > bf+1 {
			r.Nontrivial++
		}
		if msg != "" {
			short := msg
			if i := len(short); i > 60 {
				short = short[:60]
			}
			r.Violation(fmt.Sprintf("tree n=%d bf=%d", len(pos), bf), fmt.Sprintf("positions %v bf=%d: %s", pos, bf, msg), map[string]any{"positions": pos, "bf": bf})
		}
	}
	for n := 1; n <= 40; n++ {
		id := make([]hotstuff.ID, n)
		for i := range id {
			id[i] = hotstuff.ID(i + 1)
		}
		for bf := 2; bf <= 6; bf++ {
			one(id, bf)
			rev := make([]hotstuff.ID, n)
			for i := range id {
				rev[i] = id[n-1-i]
			}
			one(rev, bf)
			for k := 1; k < n; k++ {
				rot := append(append([]hotstuff.ID(nil), id[k:]...), id[:k]...)
				one(rot, bf)
			}
			for a := 0; a < n; a++ {
				for b := a + 1; b < n; b++ {
					tr := append([]hotstuff.ID(nil), id...)
					tr[a], tr[b] = tr[b], tr[a]
					one(tr, bf)
				}
			}
			if n <= permMax {
				perm := append([]hotstuff.ID(nil), id...)
				var rec func(k int)
				rec = func(k int) {
					if k == n {
						one(perm, bf)
						return
					}
					for i := k; i < n; i++ {
						perm[k], perm[i] = perm[i], perm[k]
						rec(k + 1)
						perm[k], perm[i] = perm[i], perm[k]
					}
				}
				rec(0)
			}
		}
		if r.Violations() > 3 {
			break
		}
	}
	r.Sample("positions [3 1 2 5 4] bf=2: root 3, children(3)={1,2}, children(1)={5,4}")
	r.Sample("n=40 bf=6 identity: height 3, SubTree(2) = {8..13}")
	r.Traces = r.Evaluations
	r.Extra["all_permutations_up_to_n"] = permMax
	r.Explanation = "The parent relation is assembled from each replica's own Tree.Parent(); all other accessors of all replicas' trees are compared with that relation."
}
