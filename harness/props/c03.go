package props

import (
	"fmt"
	"strings"

	"github.com/relab/hotstuff"
	"github.com/relab/hotstuff/protocol/rules"
	"github.com/relab/hotstuff/security/crypto"
	"github.com/relab/hotstuff/zverif/dump"
	"github.com/relab/hotstuff/zverif/ev"
	"github.com/relab/hotstuff/zverif/fix"
	"github.com/relab/hotstuff/zverif/node"
	"github.com/relab/hotstuff/zverif/seq"
)

// c03Local: one real replica against an environment that plays all other replicas (it holds
// their keys, so every certificate it shows is made of real signatures): every sequence of
// proposals from a pool of well- and ill-formed blocks, new-view messages and local timeouts.
// The voting obligations of C03 are local, so they must hold against any such environment.

type c03Block struct {
	name   string
	view   hotstuff.View
	qc     string // name of the certified block ("G" = genesis)
	parent string // name of the parent block
	cmd    uint64
	from   hotstuff.ID // sender / proposer (0 = the leader of the view)
}

var c03Pool = []c03Block{
	{"B1a", 1, "G", "G", 1, 0},
	{"B1b", 1, "G", "G", 2, 0},            // second block for view 1 (equivocation)
	{"B1x", 1, "B1a", "B1a", 3, 0},        // view equal to the view of its certified block
	{"B2a", 2, "B1a", "B1a", 1, 0},
	{"B2b", 2, "B1a", "B1a", 2, 0},        // equivocation in view 2
	{"B2p", 2, "B1a", "B1b", 3, 0},        // parent is not the certified block
	{"B2w", 2, "B1a", "B1a", 4, 4},        // proposed and sent by a replica that is not the leader
	{"B2x", 2, "B2a", "B2a", 5, 0},        // view equal to the view of its certified block
	{"B3a", 3, "B2a", "B2a", 1, 0},
	{"B3g", 3, "B1a", "B1a", 2, 0},        // view gap
	{"B3o", 3, "B2a", "G", 3, 0},          // parent is not the certified block
	{"B2late", 2, "G", "G", 6, 0},         // stale certificate, lower view proposed late
}

type c03Env struct {
	c      *fix.Cluster
	blocks map[string]*hotstuff.Block
	qcs    map[string]hotstuff.QuorumCert
	ops    []string
	rules  string
	aggs   map[string]*hotstuff.AggregateQC
}

func leaderRR(v hotstuff.View) hotstuff.ID { return hotstuff.ID(v%4 + 1) }

func newC03Env(ruleset string) *c03Env {
	e := &c03Env{c: fix.NewCluster(4, crypto.NameEDDSA, fix.Opts{}), blocks: map[string]*hotstuff.Block{"G": hotstuff.GetGenesis()}, qcs: map[string]hotstuff.QuorumCert{"G": fix.GenesisQC()}, rules: ruleset}
	for _, b := range c03Pool {
		prop := b.from
		if prop == 0 {
			prop = leaderRR(b.view)
		}
		blk := hotstuff.NewBlock(e.blocks[b.parent].Hash(), e.qcs[b.qc], fix.Batch(fix.Cmd(7, b.cmd)), b.view, prop)
		e.blocks[b.name] = blk
		e.qcs[b.name] = e.c.QC(blk, 1, 2, 3) // really signed by replicas 2,3,4
		e.ops = append(e.ops, "propose "+b.name)
	}
	// the same proposals carrying an aggregate QC (genuine: replicas 2,3,4 each report the block's own QC
	// in a timeout message of the previous view); chained and simple HotStuff ignore the field, the
	// obligations on the vote are the same with and without it
	e.aggs = map[string]*hotstuff.AggregateQC{}
	for _, b := range c03Pool {
		blk := e.blocks[b.name]
		qc := blk.QuorumCert()
		v := blk.View() - 1
		qm := map[hotstuff.ID]hotstuff.QuorumCert{}
		var ss []hotstuff.QuorumSignature
		for _, i := range []int{1, 2, 3} {
			id := hotstuff.ID(i + 1)
			qm[id] = qc
			ss = append(ss, e.c.SignBytes(hotstuff.TimeoutMsg{ID: id, View: v, SyncInfo: hotstuff.NewSyncInfoWith(qc)}.ToBytes(), i)...)
		}
		agg := hotstuff.NewAggregateQC(qm, e.c.Combine(ss...), v)
		e.aggs[b.name] = &agg
		switch b.name { // a well-formed one, the two with a parent that is not the certified block, the wrong sender
		case "B2a", "B2p", "B3o", "B2w":
			e.ops = append(e.ops, "propose+aggqc "+b.name)
		}
	}
	// (QC(B3a) makes the replica under test the leader of view 4: it proposes and signs its own block)
	for _, n := range []string{"B1a", "B2a", "B1b", "B3a"} {
		e.ops = append(e.ops, "newview QC("+n+")")
	}
	e.ops = append(e.ops, "local-timeout")
	return e
}

type c03Sys struct {
	e       *c03Env
	n       *node.Node
	snd     *fix.Sender
	votes   []hotstuff.View
	voted   map[hotstuff.View]hotstuff.Hash
	timedOut map[hotstuff.View]bool
	pending [][]byte
	byBytes map[string]string
	trace   []string
}

func (e *c03Env) newSys() *c03Sys {
	s := &c03Sys{e: e, voted: map[hotstuff.View]hotstuff.Hash{}, timedOut: map[hotstuff.View]bool{}, byBytes: map[string]string{}}
	s.snd = &fix.Sender{ID: 1, Fetch: func(h hotstuff.Hash) (*hotstuff.Block, bool) {
		for _, b := range e.blocks {
			if b.Hash() == h {
				return b, true
			}
		}
		return nil, false
	}}
	s.n = node.New(node.Opts{ID: 1, N: 4, Scheme: crypto.NameEDDSA, Rules: e.rules, Leader: node.LeaderFunc(leaderRR), Sender: s.snd})
	s.n.AddPeerConfigs(e.c.Cfgs)
	s.n.StockCommands(9, 1, 6)
	s.n.Rec.OnSign = func(_ hotstuff.ID, msg []byte) { s.pending = append(s.pending, append([]byte(nil), msg...)) }
	for name, b := range e.blocks {
		s.byBytes[string(b.ToBytes())] = name
	}
	return s
}

func (s *c03Sys) Apply(op int) string {
	name := s.e.ops[op]
	s.trace = append(s.trace, name)
	s.pending = s.pending[:0]
	var pan any
	var site string
	switch {
	case strings.HasPrefix(name, "propose "):
		bn := strings.TrimPrefix(name, "propose ")
		blk := s.e.blocks[bn]
		pan, site = safelySite(func() { s.n.Deliver(hotstuff.ProposeMsg{ID: blk.Proposer(), Block: blk}) })
	case strings.HasPrefix(name, "propose+aggqc "):
		bn := strings.TrimPrefix(name, "propose+aggqc ")
		blk := s.e.blocks[bn]
		pan, site = safelySite(func() { s.n.Deliver(hotstuff.ProposeMsg{ID: blk.Proposer(), Block: blk, AggregateQC: s.e.aggs[bn]}) })
	case strings.HasPrefix(name, "newview "):
		bn := strings.TrimSuffix(strings.TrimPrefix(name, "newview QC("), ")")
		pan, site = safelySite(func() {
			s.n.Deliver(hotstuff.NewViewMsg{ID: 2, SyncInfo: hotstuff.NewSyncInfoWith(s.e.qcs[bn]), FromNetwork: true})
		})
	default:
		pan, site = safelySite(func() { s.n.Deliver(hotstuff.TimeoutEvent{View: s.n.VS.View()}) })
	}
	if pan != nil {
		return fmt.Sprintf("panic in %s: %v", site, pan)
	}
	for _, msg := range s.pending {
		if len(msg) == 8 {
			var v hotstuff.View
			for i := 7; i >= 0; i-- {
				v = v<<8 | hotstuff.View(msg[i])
			}
			s.timedOut[v] = true
			continue
		}
		bn, ok := s.byBytes[string(msg)]
		if !ok {
			// the replica's own proposal (it leads view 4) counts as its vote for that view
			own := false
			for _, m := range s.snd.Sent {
				if pm, isP := m.(fix.ProposeTo); isP && string(pm.Msg.Block.ToBytes()) == string(msg) {
					view := pm.Msg.Block.View()
					own = true
					if _, dup := s.voted[view]; dup {
						return fmt.Sprintf("signed its own proposal for view %d after another vote in that view", view)
					}
					for _, pv := range s.votes {
						if pv >= view {
							return fmt.Sprintf("signed its own proposal for view %d after a vote in view %d", view, pv)
						}
					}
					s.voted[view] = pm.Msg.Block.Hash()
					s.votes = append(s.votes, view)
				}
			}
			_ = own
			continue // (otherwise: a timeout message of the aggregate rule)
		}
		b := s.e.blocks[bn]
		var spec *c03Block
		for i := range c03Pool {
			if c03Pool[i].name == bn {
				spec = &c03Pool[i]
			}
		}
		view := b.View()
		if h, dup := s.voted[view]; dup {
			if h == b.Hash() {
				return fmt.Sprintf("signed block %s twice", bn)
			}
			return fmt.Sprintf("voted for two blocks in view %d (second: %s)", view, bn)
		}
		for _, pv := range s.votes {
			if pv >= view {
				return fmt.Sprintf("vote for %s in view %d after a vote in view %d", bn, view, pv)
			}
		}
		for tv := range s.timedOut {
			if view <= tv {
				return fmt.Sprintf("vote for %s in view %d after signing a timeout for view %d", bn, view, tv)
			}
		}
		s.voted[view] = b.Hash()
		s.votes = append(s.votes, view)
		if spec.from != 0 {
			return fmt.Sprintf("voted for %s, proposed and sent by replica %d, leader of view %d is %d", bn, spec.from, view, leaderRR(view))
		}
		if spec.parent != spec.qc {
			return fmt.Sprintf("voted for %s whose parent (%s) is not the block its QC certifies (%s)", bn, spec.parent, spec.qc)
		}
		if qb := s.e.blocks[spec.qc]; view <= qb.View() {
			return fmt.Sprintf("voted for %s whose view %d is not above the view %d of its certified block %s", bn, view, qb.View(), spec.qc)
		}
	}
	return ""
}

func (s *c03Sys) Key() string {
	lv, _ := dump.Field(s.n.Voter, "lastVotedView")
	return fmt.Sprintf("%d|%v|%v|%v|%s|%s", s.n.VS.View(), lv, s.votes, s.timedOut, dump.Fields(s.n.Rules, nil, "bLock", "locked"), dump.Fields(s.n.Loop, nil, "waitingEvents")) +
		dump.Fields(s.n.VS, nil, "highQC", "highTC") + dump.Fields(s.n.Chain, nil, "blocks")
}

func c03Local(r *ev.Reporter) {
	depth := 5
	if !r.Quick() {
		depth = 7
	}
	var sum []string
	for _, rs := range []string{rules.NameChainedHotStuff, rules.NameSimpleHotStuff, rules.NameFastHotStuff} {
		e := newC03Env(rs)
		st := seq.Run(seq.Config{NumOps: len(e.ops), MaxDepth: depth, Dedup: true, New: func() seq.System { return e.newSys() },
			Stop: func() bool { return r.Violations() > 6 },
			OnFail: func(ops []int, msg string) {
				names := make([]string, len(ops))
				for i, o := range ops {
					names[i] = e.ops[o]
				}
				r.Violation(fmt.Sprintf("C03 %s single replica: %s", rs, classify(msg)), fmt.Sprintf("%s, one replica (id 1, n=4, round-robin leaders) against an environment holding the other keys, inputs [%s]: %s", rs, strings.Join(names, "; "), msg), map[string]any{"ruleset": rs, "ops": names})
			}})
		r.Count(st.States, st.Transitions, st.Transitions, st.States)
		sum = append(sum, fmt.Sprintf("%s: depth=%d inputs=%d states=%d transitions=%d", rs, depth, len(e.ops), st.States, st.Transitions))
		fmt.Println("single replica, " + sum[len(sum)-1])
	}
	r.Extra["single_replica_part"] = sum
	r.Sample("single replica: propose B1a; newview QC(B1a); propose B2x (view 2, certifies the view-2 block B2a) -> must not be voted for")
}
