package props

import (
	"fmt"
	"runtime/debug"
	"sort"
	"strings"

	"github.com/relab/hotstuff"
	"github.com/relab/hotstuff/security/crypto"
	"github.com/relab/hotstuff/zverif/ev"
	"github.com/relab/hotstuff/zverif/fix"
)

func init() { Registry["C19"] = c19 }

func safely(f func()) (p any) {
	defer func() { p = recover() }()
	f()
	return nil
}

// safelySite is safely plus the innermost repository frame of the panic ("file.go:func").
func safelySite(f func()) (p any, site string) {
	defer func() {
		if p = recover(); p != nil {
			site = repoFrame(string(debug.Stack()))
		}
	}()
	f()
	return nil, ""
}

func repoFrame(stack string) string {
	lines := strings.Split(stack, "\n")
	for i := 0; i+1 < len(lines); i++ {
		fn := lines[i]
		loc := strings.TrimSpace(lines[i+1])
		if !strings.HasPrefix(fn, "github.com/relab/hotstuff") || strings.Contains(fn, "/zverif/") {
			continue
		}
		if !strings.HasPrefix(loc, "/repo/") || strings.Contains(loc, "/zverif/") || strings.Contains(loc, "zz_verif") {
			continue
		}
		// keep the function name without the argument list and without the module path
		if j := strings.LastIndex(fn, "("); j > 0 {
			fn = fn[:j]
		}
		fn = strings.TrimPrefix(fn, "github.com/relab/hotstuff/")
		fn = strings.TrimPrefix(fn, "github.com/relab/hotstuff.")
		return fn
	}
	return "unknown-site"
}

// checkSet compares an IDSet with the reference set.
func checkSet(set hotstuff.IDSet, ref map[hotstuff.ID]bool, probes []hotstuff.ID) string {
	return checkSetOrd(set, ref, probes, true)
}

// checkSetOrd: with ordered=false (signer lists; the property only promises size = number of
// distinct signers) iteration is compared as a multiset and early stop is checked by count only.
func checkSetOrd(set hotstuff.IDSet, ref map[hotstuff.ID]bool, probes []hotstuff.ID, ordered bool) string {
	if set.Len() != len(ref) {
		return fmt.Sprintf("Len=%d want %d", set.Len(), len(ref))
	}
	for _, id := range probes {
		if set.Contains(id) != ref[id] {
			return fmt.Sprintf("Contains(%d)=%v want %v", id, set.Contains(id), ref[id])
		}
	}
	want := make([]hotstuff.ID, 0, len(ref))
	for id := range ref {
		want = append(want, id)
	}
	sort.Slice(want, func(i, j int) bool { return want[i] < want[j] })
	var got []hotstuff.ID
	set.ForEach(func(id hotstuff.ID) { got = append(got, id) })
	if !ordered {
		sort.Slice(got, func(i, j int) bool { return got[i] < got[j] })
		if fmt.Sprint(got) != fmt.Sprint(want) {
			return fmt.Sprintf("ForEach (sorted)=%v want %v", got, want)
		}
		return ""
	}
	if fmt.Sprint(got) != fmt.Sprint(want) {
		return fmt.Sprintf("ForEach=%v want %v", got, want)
	}
	// RangeWhile with early stop after k elements, for every k
	for k := 0; k <= len(want); k++ {
		var seen []hotstuff.ID
		set.RangeWhile(func(id hotstuff.ID) bool {
			seen = append(seen, id)
			return len(seen) < k
		})
		exp := want
		if k < len(want) {
			exp = want[:max(k, 1)]
		}
		if len(want) == 0 {
			exp = nil
		}
		if fmt.Sprint(seen) != fmt.Sprint(exp) {
			return fmt.Sprintf("RangeWhile(stop after %d)=%v want %v", k, seen, exp)
		}
	}
	return ""
}

func c19(r *ev.Reporter, _ []string) {
	r.Rule = "Bitfield: all Add/query sequences up to length L over the boundary id alphabet + every single id 1..300, all byte strings of length <=2 and all 2-byte prefixes padded to 3 through BitfieldFromBytes/Bytes; Multi/BLS: all ordered signer lists (with repeats) up to length n through Sign/Combine incl. nested combines; distinct = distinct sequences/lists"
	alpha := []hotstuff.ID{1, 2, 7, 8, 9, 16, 17, 255, 256, 257, 300}
	probes := append([]hotstuff.ID{3, 10, 15, 18, 24, 25, 254, 258, 299, 301, 512}, alpha...)
	maxLen := 4
	if !r.Quick() {
		maxLen = 6
	}
	// (a) insertion sequences
	var seq []hotstuff.ID
	var rec func()
	rec = func() {
		var bf crypto.Bitfield
		ref := map[hotstuff.ID]bool{}
		var msg string
		if p := safely(func() {
			for _, id := range seq {
				bf.Add(id)
				ref[id] = true
			}
			msg = checkSet(&bf, ref, probes)
			if msg == "" {
				// reconstruction from the byte form equals the original
				rb := crypto.BitfieldFromBytes(append([]byte(nil), bf.Bytes()...))
				if m := checkSet(&rb, ref, probes); m != "" {
					msg = "rebuilt from Bytes(): " + m
				}
			}
		}); p != nil {
			msg = fmt.Sprintf("panic: %v", p)
		}
		r.Evaluations++
		r.States++
		r.Nontrivial++
		if len(seq) == 3 {
			r.Sample(fmt.Sprintf("Bitfield.Add%v", seq))
		}
		if msg != "" {
			r.Violation("Bitfield add-sequence: "+msg[:min(len(msg), 40)], fmt.Sprintf("Add%v: %s", seq, msg), map[string]any{"adds": seq})
		}
		if len(seq) == maxLen {
			return
		}
		for _, id := range alpha {
			seq = append(seq, id)
			r.Transitions++
			rec()
			seq = seq[:len(seq)-1]
		}
	}
	rec()
	for id := hotstuff.ID(1); id <= 300; id++ {
		var bf crypto.Bitfield
		bf.Add(id)
		bf.Add(id)
		r.Evaluations++
		if m := checkSet(&bf, map[hotstuff.ID]bool{id: true}, []hotstuff.ID{max(id-1, 1), id, id + 1, id + 8, 1, 300}); m != "" {
			r.Violation("Bitfield single id", fmt.Sprintf("Add(%d) twice: %s", id, m), map[string]any{"id": id})
		}
	}
	// (b) reconstruction from arbitrary bytes
	checkBytes := func(b []byte) {
		ref := map[hotstuff.ID]bool{}
		for i, by := range b {
			for bit := 0; bit < 8; bit++ {
				if by&(1<<bit) != 0 {
					ref[hotstuff.ID(i*8+bit+1)] = true
				}
			}
		}
		var msg string
		if p := safely(func() {
			bf := crypto.BitfieldFromBytes(append([]byte(nil), b...))
			pr := []hotstuff.ID{1, 2, 8, 9, 16, 17, 24, 25, 32}
			msg = checkSet(&bf, ref, pr)
			if msg == "" && fmt.Sprint(bf.Bytes()) != fmt.Sprint(b) {
				msg = "Bytes() differs from input"
			}
			if msg == "" {
				// adding a present id changes nothing, adding an absent one grows by one
				for _, id := range []hotstuff.ID{1, 9, 17, 25, 40} {
					c := crypto.BitfieldFromBytes(append([]byte(nil), b...))
					c.Add(id)
					ref2 := map[hotstuff.ID]bool{id: true}
					for k := range ref {
						ref2[k] = true
					}
					if m := checkSet(&c, ref2, pr); m != "" {
						msg = fmt.Sprintf("after Add(%d): %s", id, m)
						break
					}
				}
			}
		}); p != nil {
			msg = fmt.Sprintf("panic: %v", p)
		}
		r.Evaluations++
		r.States++
		if len(ref) > 1 {
			r.Nontrivial++
		}
		if msg != "" {
			r.Violation("BitfieldFromBytes: "+msg[:min(len(msg), 30)], fmt.Sprintf("bytes %v: %s", b, msg), map[string]any{"bytes": b})
		}
	}
	checkBytes(nil)
	for a := 0; a < 256; a++ {
		checkBytes([]byte{byte(a)})
	}
	for a := 0; a < 65536; a++ {
		checkBytes([]byte{byte(a), byte(a >> 8)})
		if !r.Quick() || a%5 == 0 {
			checkBytes([]byte{byte(a), byte(a >> 8), 0})
			checkBytes([]byte{byte(a), byte(a >> 8), 0x81})
		}
	}
	r.Sample("BitfieldFromBytes([0x05 0x80]) -> {1,3,16}")
	// (c) signer lists produced by Sign / Combine
	schemes := []string{crypto.NameEDDSA, crypto.NameECDSA, crypto.NameBLS12}
	for _, scheme := range schemes {
		n := 5
		if scheme == crypto.NameBLS12 && r.Quick() {
			n = 4
		}
		c := fix.NewCluster(n, scheme, fix.Opts{})
		single := c.SignBytes([]byte("m"), fix.Range(n)...)
		for i, s := range single {
			if m := checkSet(s.Participants(), map[hotstuff.ID]bool{hotstuff.ID(i + 1): true}, []hotstuff.ID{1, 2, 3, 4, 5, 6}); m != "" {
				r.Violation("Sign participants "+scheme, m, map[string]any{"scheme": scheme, "signer": i + 1})
			}
		}
		pr := []hotstuff.ID{1, 2, 3, 4, 5, 6}
		// flat combines of every ordered list (with repeats) of length 2..n
		var list []int
		var recL func()
		combineCheck := func(desc string, sigs []hotstuff.QuorumSignature, ids [][]int) {
			ref := map[hotstuff.ID]bool{}
			overlap := false
			for _, g := range ids {
				for _, i := range g {
					if ref[hotstuff.ID(i+1)] {
						overlap = true
					}
					ref[hotstuff.ID(i+1)] = true
				}
			}
			var out hotstuff.QuorumSignature
			var err error
			if p := safely(func() { out, err = c.Auths[0].Combine(sigs...) }); p != nil {
				r.Violation("Combine panic "+scheme, fmt.Sprintf("%s: %v", desc, p), map[string]any{"scheme": scheme, "case": desc})
				return
			}
			r.Evaluations++
			r.States++
			r.Transitions++
			if overlap {
				r.Nontrivial++
				if err == nil {
					r.Violation("Combine accepts overlap "+scheme, fmt.Sprintf("%s combined without error; Len=%d distinct=%d", desc, out.Participants().Len(), len(ref)), map[string]any{"scheme": scheme, "case": desc})
				}
				return
			}
			if err != nil {
				r.Violation("Combine rejects disjoint "+scheme, fmt.Sprintf("%s: %v", desc, err), map[string]any{"scheme": scheme, "case": desc})
				return
			}
			if m := checkSetOrd(out.Participants(), ref, pr, scheme == crypto.NameBLS12); m != "" {
				r.Violation("Combine participants "+scheme, fmt.Sprintf("%s: %s", desc, m), map[string]any{"scheme": scheme, "case": desc})
			}
		}
		recL = func() {
			if len(list) >= 2 {
				sigs := make([]hotstuff.QuorumSignature, len(list))
				ids := make([][]int, len(list))
				for k, i := range list {
					sigs[k] = single[i]
					ids[k] = []int{i}
				}
				combineCheck(fmt.Sprintf("Combine(singles %v)", list), sigs, ids)
			}
			if len(list) == n {
				return
			}
			for i := 0; i < n; i++ {
				list = append(list, i)
				recL()
				list = list[:len(list)-1]
			}
		}
		recL()
		// nested: Combine(Combine(a,b), c), Combine(Combine(a,b), Combine(c,d)) for all index choices
		pair := map[[2]int]hotstuff.QuorumSignature{}
		for a := 0; a < n; a++ {
			for b := 0; b < n; b++ {
				if a != b {
					sab, err := c.Auths[0].Combine(single[a], single[b])
					if err != nil { // reported by combineCheck above ("Combine rejects disjoint")
						continue
					}
					pair[[2]int{a, b}] = sab
				}
			}
		}
		for ab, sab := range pair {
			for x := 0; x < n; x++ {
				combineCheck(fmt.Sprintf("Combine(Combine%v,%d)", ab, x), []hotstuff.QuorumSignature{sab, single[x]}, [][]int{{ab[0], ab[1]}, {x}})
				combineCheck(fmt.Sprintf("Combine(%d,Combine%v)", x, ab), []hotstuff.QuorumSignature{single[x], sab}, [][]int{{x}, {ab[0], ab[1]}})
			}
			for cd, scd := range pair {
				combineCheck(fmt.Sprintf("Combine(Combine%v,Combine%v)", ab, cd), []hotstuff.QuorumSignature{sab, scd}, [][]int{{ab[0], ab[1]}, {cd[0], cd[1]}})
			}
		}
		r.Sample(fmt.Sprintf("%s: Combine(Combine(1,2),Combine(2,3)) must be rejected; Combine(1,2,3).Len()==3", scheme))
	}
	r.Traces = r.Evaluations
	r.Extra["bitfield_max_seq_len"] = maxLen
	r.Explanation = "Every enumerated case runs the real Bitfield / Multi / BLS aggregate code; the oracle is a map[ID]bool."
}
