package props

import (
	"fmt"
	"strings"

	"github.com/relab/hotstuff"
	"github.com/relab/hotstuff/core/eventloop"
	"github.com/relab/hotstuff/protocol/rules"
	"github.com/relab/hotstuff/security/crypto"
	"github.com/relab/hotstuff/zverif/ev"
	"github.com/relab/hotstuff/zverif/fix"
	"github.com/relab/hotstuff/zverif/mcrt"
	"github.com/relab/hotstuff/zverif/node"
)

// c09Async: asynchronous vote verification (one goroutine per vote) under the controlled scheduler.
func c09Async(r *ev.Reporter) []string {
	if !mcrtAvailable() {
		r.Assume("asynchronous part skipped: binary built without the scheduler overlay")
		return nil
	}
	bound, capExec := 1, int64(0)
	if !r.Quick() {
		bound, capExec = 2, 150000
	}
	f := newC09Fix(4, crypto.NameEDDSA)
	orders := [][]c09Msg{
		{f.prop, f.honest[0], f.honest[1], f.honest[2]},
		{f.honest[0], f.honest[1], f.prop, f.honest[2]},
		{f.prop, f.honest[0], f.host[0], f.honest[1]},             // duplicate of 3's vote
		{f.prop, f.host[3], f.honest[0], f.honest[1]},             // two-signer vote first
		{f.prop, f.honest[0], f.host[1], f.host[2], f.honest[2]},  // forged and other-block votes in between
	}
	if r.Quick() {
		orders = orders[:4]
	}
	var out []string
	for oi, msgs := range orders {
		msgs := msgs
		names := make([]string, len(msgs))
		for i, m := range msgs {
			names[i] = m.name
		}
		run := func(s *mcrt.Sched) (string, string) {
			var emitted []hotstuff.QuorumCert
			must := map[hotstuff.ID]bool{}
			may := map[hotstuff.ID]bool{}
			var fail string
			s.Run(func() {
				snd := &fix.Sender{ID: 1}
				L := node.New(node.Opts{ID: 1, N: f.n, Scheme: f.scheme, Rules: rules.NameChainedHotStuff, Sender: snd, Truth: f.c.Truth, Async: true,
					Leader: node.LeaderFunc(func(v hotstuff.View) hotstuff.ID {
						if v <= 1 {
							return 2
						}
						return 1
					})})
				L.AddPeerConfigs(f.c.Cfgs)
				L.StockCommands(9, 1, 4)
				eventloop.Register(L.Loop, func(m hotstuff.NewViewMsg) {
					if qc, ok := m.SyncInfo.QC(); ok && qc.BlockHash() == f.b.Hash() {
						emitted = append(emitted, qc)
					}
				}, eventloop.Prioritize())
				blockKnown := false
				pending := map[hotstuff.ID]bool{}
				for _, m := range msgs {
					L.Deliver(m.ev())
					if m.isProp {
						blockKnown = true
						must[1] = true
						for id := range pending {
							must[id] = true
						}
					} else if m.must != 0 {
						if blockKnown {
							must[m.must] = true
						} else {
							pending[m.must] = true
						}
					}
					if m.must != 0 {
						may[m.must] = true
					}
					for _, id := range m.may {
						may[id] = true
					}
				}
				// the event-loop thread keeps running until all verifier goroutines are done
				for i := 0; i < 4; i++ {
					mcrt.JoinAll()
					L.Drain()
				}
			})
			if s.Broken != "" {
				return "", "harness: " + s.Broken
			}
			if s.Deadlock {
				return "", "deadlock: " + strings.Join(s.Trace(), " ")
			}
			if len(must) >= f.q && len(emitted) == 0 {
				fail = fmt.Sprintf("valid votes of %d distinct members %v were delivered (quorum %d) but no QC was emitted", len(must), keysOf(must), f.q)
			}
			if len(emitted) > 0 && len(may) < f.q {
				fail = fmt.Sprintf("a QC was emitted although only %d members voted", len(may))
			}
			for _, qc := range emitted {
				seen := map[hotstuff.ID]bool{}
				dup := false
				qc.Signature().Participants().ForEach(func(id hotstuff.ID) {
					if seen[id] {
						dup = true
					}
					seen[id] = true
				})
				if dup || len(seen) < f.q {
					fail = fmt.Sprintf("emitted QC has %d distinct participants (duplicates=%v)", len(seen), dup)
				}
				if err := f.c.Auths[2].VerifyQuorumCert(qc); err != nil {
					fail = fmt.Sprintf("emitted QC does not verify at an independent replica: %v", err)
				}
			}
			return fmt.Sprintf("qcs=%d", len(emitted)), fail
		}
		res := mcrt.Explore(bound, capExec, run, func(fl mcrt.Failure) {
			r.Violation("C09 async: "+classify(fl.Msg), fmt.Sprintf("delivery order [%s], schedule [%s]: %s", strings.Join(names, "; "), strings.Join(fl.Trace, " "), fl.Msg), map[string]any{"order": names, "choices": fl.Choices, "trace": fl.Trace})
		}, func() bool { return r.Violations() > 5 })
		if res.Broken != "" {
			ev.Broken("C09 scheduler: %s", res.Broken)
		}
		r.Count(res.Executions, res.Steps, res.Executions, int64(len(res.Outcomes)))
		out = append(out, fmt.Sprintf("async order#%d [%s]: executions=%d steps=%d completed_preemption_bound=%d (of %d) distinct_outcomes=%d", oi+1, strings.Join(names, "; "), res.Executions, res.Steps, res.Completed, bound, len(res.Outcomes)))
		if res.Completed < bound {
			r.Cap(fmt.Sprintf("async order#%d: execution cap reached before preemption bound %d was complete", oi+1, bound))
		}
	}
	return out
}
