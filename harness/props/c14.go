package props

import (
	"regexp"
	"context"
	"fmt"
	"strings"

	"github.com/relab/hotstuff/core/eventloop"
	"github.com/relab/hotstuff/zverif/ev"
	"github.com/relab/hotstuff/zverif/fix"
	"github.com/relab/hotstuff/zverif/par"
)

func init() { Registry["C14"] = c14 }

// eventToken matches the printed form of a harness event ({n}) inside a log line.
var eventToken = regexp.MustCompile(`\{\d+\}`)

func c14(r *ev.Reporter, args []string) {
	r.Rule = "(a) queue: every push/pop sequence of length <= 2c+4 for capacity c (len checked after every step) vs. a drop-oldest reference deque; (b) EventLoop+Tick: every operation sequence up to depth D over {add A/B, defer, register plain/priority/run-in-add/adding/unregistering handlers, unregister (also twice), tick} on capacity {64,2}, oracle = FIFO/once/priority/deferral invariants over the recorded handler log; distinct = distinct sequences that dispatched >=2 events"
	c14Queue(r)
	c14Loop(r)
	c14Concurrent(r)
	r.Traces = r.Evaluations
}

// ---------- (a) queue ----------

func c14Queue(r *ev.Reporter) {
	maxC := 4
	if !r.Quick() {
		maxC = 6
	}
	for c := 1; c <= maxC; c++ {
		L := 2*c + 4
		total := 1 << L
		for bits := 0; bits < total; bits++ {
			q := eventloop.VerifNewQueue(uint(c))
			var ref []int
			next := 0
			var trace []string
			bad := ""
			for i := 0; i < L && bad == ""; i++ {
				if bits&(1<<i) != 0 {
					next++
					trace = append(trace, fmt.Sprintf("push(%d)", next))
					var wantDrop any
					if len(ref) == c {
						wantDrop = ref[0]
						ref = ref[1:]
					}
					ref = append(ref, next)
					got := q.Push(next)
					if got != wantDrop {
						bad = fmt.Sprintf("push(%d) on %d/%d entries reported dropped=%v, oldest entry is %v", next, len(ref)-1+btoi(wantDrop != nil), c, got, wantDrop)
					}
				} else {
					trace = append(trace, "pop")
					got, ok := q.Pop()
					if len(ref) == 0 {
						if ok || got != nil {
							bad = fmt.Sprintf("pop on empty returned %v,%v", got, ok)
						}
					} else {
						if !ok || got != ref[0] {
							bad = fmt.Sprintf("pop returned %v,%v want %d", got, ok, ref[0])
						}
						ref = ref[1:]
					}
				}
				if bad == "" && q.Len() != len(ref) {
					bad = fmt.Sprintf("len=%d want %d", q.Len(), len(ref))
				}
			}
			r.Count(1, int64(L), 1, 1)
			if bad != "" {
				sig := "queue: " + classify(bad)
				r.Violation(sig, fmt.Sprintf("capacity %d, %s: %s", c, strings.Join(trace, " "), bad), map[string]any{"capacity": c, "ops": trace})
			}
		}
	}
	r.Sample("queue capacity 2: push(1) push(2) push(3) pop pop pop -> dropped 1, pops 2,3,empty")
}

func btoi(b bool) int {
	if b {
		return 1
	}
	return 0
}

// classify strips the concrete numbers from a failure message to obtain a stable class name.
func classify(msg string) string {
	var sb strings.Builder
	for _, ch := range msg {
		if ch >= '0' && ch <= '9' {
			continue
		}
		sb.WriteRune(ch)
	}
	s := sb.String()
	if len(s) > 70 {
		s = s[:70]
	}
	return s
}

// ---------- (b) event loop, sequential ----------

type evA struct{ N int }
type evB struct{ N int }

type hKind int

const (
	hPlain hKind = iota
	hPrio
	hInAdd
	hAdder   // plain handler on A that adds a B
	hUnreg0  // plain handler on A that calls unregister #0
	hInAddDefer // run-in-AddEvent handler on B that defers a new B until the next A (re-entrant DelayUntil)
)

type hRec struct {
	id     int
	isA    bool
	kind   hKind
	active bool
	// changedAt is the dispatch counter value at which active last changed
	changedAt int
}

type logRec struct {
	h      int
	ev     any
	inAdd  bool
	dispatch int // dispatch counter when invoked
}

const (
	opAddA = iota
	opAddB
	opDefAB // defer a B event until an A was handled
	opDefBA
	opDefAA
	opRegAPlain
	opRegAPrio
	opRegAInAdd
	opRegBPlain
	opRegAAdder
	opRegAUnreg0
	opRegBInAddDefer
	opUnreg0
	opUnreg1
	opUnreg2
	opTick
	nOps
)

var opNames = []string{"addA", "addB", "defer(B until A)", "defer(A until B)", "defer(A until A)", "regA", "regA-prio", "regA-inAdd", "regB", "regA-adder", "regA-unreg0", "regB-inAdd-defers", "unreg#0", "unreg#1", "unreg#2", "tick"}

// loopRun executes one operation sequence on a fresh real EventLoop and checks the invariants.
// It returns "" or a failure description, and the number of dispatched events.
func loopRun(ops []int, capacity uint) (string, int) {
	lg := &fix.NopLogger{Keep: true}
	el := eventloop.New(lg, capacity)
	var (
		handlers []*hRec
		unregs   []func()
		log      []logRec
		expectQ  []any           // model FIFO of pending events
		waiting  = map[bool][]any{} // key: awaited type is A
		counter  int
		dispatch int // number of completed+current dispatches
		inTick   bool
		wantDrops []any
		fail     string
		late     []any // deferrals made while their trigger was being released: wait for the next A
	)
	nextEv := func(isA bool) any {
		counter++
		if isA {
			return evA{counter}
		}
		return evB{counter}
	}
	setActive := func(h *hRec, a bool) {
		if h.active != a {
			h.active = a
			h.changedAt = dispatch
			if !inTick {
				h.changedAt = -1
			}
		}
	}
	var add func(e any)
	add = func(e any) {
		// model: in-add handlers run now; then enqueue (drop-oldest)
		if len(expectQ) == int(capacity) {
			wantDrops = append(wantDrops, expectQ[0])
			expectQ = expectQ[1:]
		}
		expectQ = append(expectQ, e)
		el.AddEvent(e)
	}
	callUnreg := func(k int) {
		if k < len(unregs) {
			unregs[k]()
			setActive(handlers[k], false)
		}
	}
	register := func(isA bool, kind hKind) {
		h := &hRec{id: len(handlers), isA: isA, kind: kind}
		handlers = append(handlers, h)
		var opts []eventloop.HandlerOption
		switch kind {
		case hPrio:
			opts = append(opts, eventloop.Prioritize())
		case hInAdd, hInAddDefer:
			opts = append(opts, eventloop.UnsafeRunInAddEvent())
		}
		deferred := 0
		body := func(e any) {
			log = append(log, logRec{h: h.id, ev: e, inAdd: kind == hInAdd || kind == hInAddDefer, dispatch: dispatch})
			switch kind {
			case hAdder:
				add(nextEv(false))
			case hUnreg0:
				callUnreg(0)
			case hInAddDefer:
				if deferred < 4 { // bounded: every B seen while being added defers one more B until the next A
					deferred++
					x := nextEv(false)
					// a deferral made while e itself is being released (re-added after an A) waits for the
					// next A; one made earlier, even during the handling of the current A, is released by it
					releasing := false
					for _, wv := range waiting[true] {
						if wv == e {
							releasing = true
						}
					}
					if releasing {
						late = append(late, x)
					} else {
						waiting[true] = append(waiting[true], x)
					}
					eventloop.DelayUntil[evA](el, x)
				}
			}
		}
		var un func()
		if isA {
			un = eventloop.Register(el, func(e evA) { body(e) }, opts...)
		} else {
			un = eventloop.Register(el, func(e evB) { body(e) }, opts...)
		}
		unregs = append(unregs, un)
		setActive(h, true)
	}
	isAEv := func(e any) bool { _, ok := e.(evA); return ok }
	tick := func() bool {
		if len(expectQ) == 0 {
			if el.Tick(context.Background()) {
				fail = "Tick handled an event although none is pending"
			}
			return false
		}
		want := expectQ[0]
		expectQ = expectQ[1:]
		dispatch++
		inTick = true
		mark := len(log)
		// snapshot of who must run: active, same type, not in-add
		type exp struct{ h *hRec }
		var must []*hRec
		for _, h := range handlers {
			if h.active && h.isA == isAEv(want) && h.kind != hInAdd && h.kind != hInAddDefer {
				must = append(must, h)
			}
		}
		// deferred events released by this dispatch join the FIFO after the handlers ran; the
		// real loop does that inside Tick, so the model appends them after Tick returns but
		// before comparing further ticks. In-add handlers for them are checked below.
		late = nil
		ok := el.Tick(context.Background())
		inTick = false
		rel := waiting[isAEv(want)]
		delete(waiting, isAEv(want))
		if isAEv(want) && len(late) > 0 {
			waiting[true] = append(waiting[true], late...)
		}
		late = nil
		if !ok {
			fail = fmt.Sprintf("Tick returned false with %v pending", want)
			return false
		}
		// handlers' adds (adder) already went through add(); now the released deferred events
		for _, e := range rel {
			if len(expectQ) == int(capacity) {
				wantDrops = append(wantDrops, expectQ[0])
				expectQ = expectQ[1:]
			}
			expectQ = append(expectQ, e)
		}
		recs := log[mark:]
		// I1: the dispatched event is the FIFO head
		seen := map[int]int{}
		prioDone := false
		for _, rc := range recs {
			if rc.inAdd {
				continue // in-add invocations (for adder adds / released deferred events) checked in I3
			}
			if rc.ev != want {
				fail = fmt.Sprintf("dispatch %d handled %v, FIFO head is %v", dispatch, rc.ev, want)
				return false
			}
			seen[rc.h]++
			if handlers[rc.h].kind == hPrio {
				if prioDone {
					fail = fmt.Sprintf("event %v: priority handler %d ran after an ordinary handler", want, rc.h)
					return false
				}
			} else {
				prioDone = true
			}
		}
		for _, h := range must {
			dontCare := h.changedAt == dispatch
			if seen[h.id] != 1 && !dontCare {
				fail = fmt.Sprintf("event %v: registered handler %d (%s) invoked %d times", want, h.id, kindName(h.kind), seen[h.id])
				return false
			}
		}
		for id, n := range seen {
			h := handlers[id]
			was := false
			for _, m := range must {
				if m == h {
					was = true
				}
			}
			if !was && h.changedAt != dispatch {
				fail = fmt.Sprintf("event %v: handler %d invoked %d times but is not registered", want, id, n)
				return false
			}
		}
		// I3 for released deferred events: each in-add handler of its type ran exactly once for it
		for _, e := range rel {
			for _, h := range handlers {
				if (h.kind == hInAdd || h.kind == hInAddDefer) && h.isA == isAEv(e) && h.active && h.changedAt != dispatch {
					cnt := 0
					for _, rc := range recs {
						if rc.inAdd && rc.h == h.id && rc.ev == e {
							cnt++
						}
					}
					if cnt != 1 {
						fail = fmt.Sprintf("deferred event %v re-added: in-add handler %d invoked %d times", e, h.id, cnt)
						return false
					}
				}
			}
		}
		return true
	}
	for _, op := range ops {
		if fail != "" {
			break
		}
		switch op {
		case opAddA, opAddB:
			e := nextEv(op == opAddA)
			mark := len(log)
			add(e)
			// I3: in-add handlers run exactly once during AddEvent
			for _, h := range handlers {
				if (h.kind == hInAdd || h.kind == hInAddDefer) && h.isA == isAEv(e) {
					cnt := 0
					for _, rc := range log[mark:] {
						if rc.h == h.id && rc.ev == e {
							cnt++
						}
					}
					if h.active && cnt != 1 || !h.active && cnt != 0 {
						fail = fmt.Sprintf("AddEvent(%v): in-add handler %d (active=%v) invoked %d times", e, h.id, h.active, cnt)
					}
				}
			}
		case opDefAB:
			e := nextEv(false)
			waiting[true] = append(waiting[true], e)
			eventloop.DelayUntil[evA](el, e)
		case opDefBA:
			e := nextEv(true)
			waiting[false] = append(waiting[false], e)
			eventloop.DelayUntil[evB](el, e)
		case opDefAA:
			e := nextEv(true)
			waiting[true] = append(waiting[true], e)
			eventloop.DelayUntil[evA](el, e)
		case opRegAPlain:
			register(true, hPlain)
		case opRegAPrio:
			register(true, hPrio)
		case opRegAInAdd:
			register(true, hInAdd)
		case opRegBPlain:
			register(false, hPlain)
		case opRegAAdder:
			register(true, hAdder)
		case opRegAUnreg0:
			register(true, hUnreg0)
		case opRegBInAddDefer:
			register(false, hInAddDefer)
		case opUnreg0, opUnreg1, opUnreg2:
			callUnreg(op - opUnreg0)
		case opTick:
			tick()
		}
	}
	// drain
	for guard := 0; fail == "" && guard < 100; guard++ {
		if !tick() {
			break
		}
	}
	if fail == "" {
		// nothing handled that was not expected, deferred events still waiting were never delivered
		for _, rc := range log {
			for _, w := range waiting {
				for _, e := range w {
					if rc.ev == e {
						fail = fmt.Sprintf("deferred event %v was delivered although no event of the awaited type was handled", e)
					}
				}
			}
		}
	}
	if fail == "" {
		// reported drops (logger warnings) are exactly the oldest pending events
		// (compared by the event each report names, not by wording or log level)
		var got []string
		for _, w := range lg.Warns {
			if eventToken.MatchString(w) {
				got = append(got, w)
			}
		}
		ok := len(got) == len(wantDrops)
		for i := 0; ok && i < len(got); i++ {
			ok = strings.Contains(got[i], fmt.Sprint(wantDrops[i]))
		}
		if !ok {
			fail = fmt.Sprintf("overflow reports %v, the dropped (oldest) events are %v", got, wantDrops)
		}
	}
	return fail, dispatch
}

func kindName(k hKind) string {
	return [...]string{"plain", "priority", "in-add", "adder", "unregisters#0", "in-add-defers"}[k]
}

func opsString(ops []int) string {
	s := make([]string, len(ops))
	for i, o := range ops {
		s[i] = opNames[o]
	}
	return strings.Join(s, "; ")
}

func c14Loop(r *ev.Reporter) {
	depth := 6
	if !r.Quick() {
		depth = 7
	}
	r.Extra["eventloop_seq_depth"] = depth
	for _, capacity := range []uint{64, 2} {
		par.Shards(nOps, 2, func(prefix []int) {
			ops := make([]int, 0, depth)
			ops = append(ops, prefix...)
			var st, tr, evs, nt int64
			var rec func()
			rec = func() {
				if len(ops) == depth {
					if r.Violations() > 8 {
						return
					}
					fail, disp := loopRun(ops, capacity)
					st++
					tr += int64(depth)
					evs++
					if disp >= 2 {
						nt++
					}
					if fail != "" {
						r.Violation("eventloop: "+classify(fail), fmt.Sprintf("capacity %d, ops [%s]: %s", capacity, opsString(ops), fail), map[string]any{"capacity": capacity, "ops": append([]int(nil), ops...), "names": opsString(ops)})
					}
					return
				}
				for o := 0; o < nOps; o++ {
					// prune no-op unregisters (no such handler yet)
					if o >= opUnreg0 && o <= opUnreg2 {
						regs := 0
						for _, p := range ops {
							if p >= opRegAPlain && p <= opRegBInAddDefer {
								regs++
							}
						}
						if o-opUnreg0 >= regs {
							continue
						}
					}
					ops = append(ops, o)
					rec()
					ops = ops[:len(ops)-1]
				}
			}
			// the shard prefix itself must obey the pruning rule
			rec()
			r.Count(st, tr, evs, nt)
		})
	}
	r.Sample("capacity 64: regA-prio; regA; addA; defer(B until A); tick; tick -> A handled by prio then plain, then deferred B handled")
	r.Sample("capacity 64: regA; regA-unreg0; unreg#0; regA-prio; addA; tick (double unregister of slot 0 after reuse)")
}
