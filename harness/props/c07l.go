package props

import (
	"fmt"
	"sort"
	"strings"

	"github.com/relab/hotstuff"
	"github.com/relab/hotstuff/protocol/rules"
	"github.com/relab/hotstuff/security/crypto"
	"github.com/relab/hotstuff/zverif/dump"
	"github.com/relab/hotstuff/zverif/ev"
	"github.com/relab/hotstuff/zverif/fix"
	"github.com/relab/hotstuff/zverif/node"
	"github.com/relab/hotstuff/zverif/seq"
)

// c07Local: one real replica (id 1 of 4) against an environment that holds the keys of all other
// replicas and sends it every combination of certificates in new-view messages, timeout messages
// and proposals: each of {QC, TC, aggregate QC} absent, genuine (several views), sub-quorum,
// relabelled with another view. Validity of every certificate is known by construction. The
// obligations of C07 are local: the view moves one step per piece of evidence, only while a genuine
// certificate for a view >= the one being left has been delivered; the high QC is only ever replaced
// by a genuine QC (also one carried inside a genuine aggregate QC); nothing decreases; every view
// change is signalled.

type c07Cert struct {
	name  string
	valid bool
	view  hotstuff.View
	qc    *hotstuff.QuorumCert
	tc    *hotstuff.TimeoutCert
	agg   *hotstuff.AggregateQC
	inner []*c07Cert // genuine QCs carried inside a genuine aggregate QC
}

type c07Op struct {
	name  string
	certs []*c07Cert
	ev    func() any
}

type c07Env struct {
	cache  uint // capacity of the replica's signature cache (0 = none)
	rules  string
	agg    bool
	c      *fix.Cluster
	blocks []*hotstuff.Block
	ops    []c07Op
}

func newC07Env(ruleset string, cache uint) *c07Env {
	agg := ruleset == rules.NameFastHotStuff
	e := &c07Env{cache: cache, rules: ruleset, agg: agg, c: fix.NewCluster(4, crypto.NameEDDSA, fix.Opts{AggQC: agg})}
	c := e.c
	mkBlock := func(parent *hotstuff.Block, qc hotstuff.QuorumCert, v hotstuff.View, cmd uint64) *hotstuff.Block {
		b := hotstuff.NewBlock(parent.Hash(), qc, fix.Batch(fix.Cmd(7, cmd)), v, leaderRR(v))
		e.blocks = append(e.blocks, b)
		return b
	}
	g := hotstuff.GetGenesis()
	b1 := mkBlock(g, fix.GenesisQC(), 1, 1)
	q1v := c.QC(b1, 1, 2, 3)
	b2 := mkBlock(b1, q1v, 2, 2)
	q2v := c.QC(b2, 1, 2, 3)
	b3 := mkBlock(b2, q2v, 3, 3)
	q3v := c.QC(b3, 1, 2, 3)
	bx := mkBlock(b3, q3v, 7, 4) // a block nobody but two replicas signed
	// --- QCs
	q1 := &c07Cert{name: "QC(v1)", valid: true, view: 1, qc: &q1v}
	q3 := &c07Cert{name: "QC(v3)", valid: true, view: 3, qc: &q3v}
	qfv := hotstuff.NewQuorumCert(c.Combine(c.SignBlock(bx, 2, 3)...), 7, bx.Hash())
	qf := &c07Cert{name: "QC(v7,two-signers)", view: 7, qc: &qfv}
	qrv := hotstuff.NewQuorumCert(q1v.Signature(), 5, b1.Hash())
	qr := &c07Cert{name: "QC(v1-relabelled-v5)", view: 5, qc: &qrv}
	// the genesis block needs no signatures, but only as the certificate of view 0
	qgv := hotstuff.NewQuorumCert(nil, 9, hotstuff.GetGenesis().Hash())
	qg := &c07Cert{name: "QC(genesis-relabelled-v9)", view: 9, qc: &qgv}
	qcs := []*c07Cert{nil, q1, q3, qf, qr, qg}
	// --- TCs
	mkTC := func(v hotstuff.View, label hotstuff.View, idx ...int) hotstuff.TimeoutCert {
		return hotstuff.NewTimeoutCert(c.Combine(c.SignBytes(v.ToBytes(), idx...)...), label)
	}
	t1v, t4v, tfv, trv := mkTC(1, 1, 1, 2, 3), mkTC(4, 4, 1, 2, 3), mkTC(9, 9, 2, 3), mkTC(1, 8, 1, 2, 3)
	tcs := []*c07Cert{nil,
		{name: "TC(v1)", valid: true, view: 1, tc: &t1v},
		{name: "TC(v4)", valid: true, view: 4, tc: &t4v},
		{name: "TC(v9,two-signers)", view: 9, tc: &tfv},
		{name: "TC(v1-relabelled-v8)", view: 8, tc: &trv},
	}
	// --- aggregate QCs (timeout messages of view v by the given replicas, each reporting QC(v1))
	aggs := []*c07Cert{nil}
	if agg {
		mkAgg := func(v hotstuff.View, idx ...int) hotstuff.AggregateQC {
			qm := map[hotstuff.ID]hotstuff.QuorumCert{}
			var ss []hotstuff.QuorumSignature
			for _, i := range idx {
				id := hotstuff.ID(i + 1)
				qm[id] = q1v
				ss = append(ss, c.SignBytes(hotstuff.TimeoutMsg{ID: id, View: v, SyncInfo: hotstuff.NewSyncInfoWith(q1v)}.ToBytes(), i)...)
			}
			return hotstuff.NewAggregateQC(qm, c.Combine(ss...), v)
		}
		a2v, afv := mkAgg(2, 1, 2, 3), mkAgg(10, 2, 3)
		aggs = append(aggs,
			&c07Cert{name: "AggQC(v2)", valid: true, view: 2, agg: &a2v, inner: []*c07Cert{q1}},
			&c07Cert{name: "AggQC(v10,two-signers)", view: 10, agg: &afv})
	}
	for _, q := range qcs {
		for _, t := range tcs {
			for _, a := range aggs {
				if q == nil && t == nil && a == nil {
					continue
				}
				si := hotstuff.NewSyncInfo()
				var certs []*c07Cert
				var names []string
				if q != nil {
					si.SetQC(*q.qc)
					certs, names = append(certs, q), append(names, q.name)
				}
				if t != nil {
					si.SetTC(*t.tc)
					certs, names = append(certs, t), append(names, t.name)
				}
				if a != nil {
					si.SetAggQC(*a.agg)
					certs, names = append(certs, a), append(names, a.name)
				}
				label := strings.Join(names, "+")
				e.ops = append(e.ops, c07Op{name: "newview{" + label + "}", certs: certs, ev: func() any {
					return hotstuff.NewViewMsg{ID: 2, SyncInfo: si, FromNetwork: true}
				}})
				// a correctly signed timeout message of replica 2 for a far-away view carrying the sync info
				e.ops = append(e.ops, c07Op{name: "timeout(v20){" + label + "}", certs: certs, ev: func() any {
					m := hotstuff.TimeoutMsg{ID: 2, View: 20, SyncInfo: si, ViewSignature: c.SignBytes(hotstuff.View(20).ToBytes(), 1)[0]}
					m.MsgSignature = c.SignBytes(m.ToBytes(), 1)[0]
					return m
				}})
			}
		}
	}
	// proposals by the legitimate leader of their view, justified by each QC (and aggregate QC)
	prop := func(name string, parent *hotstuff.Block, q *c07Cert, a *c07Cert, v hotstuff.View) {
		b := hotstuff.NewBlock(parent.Hash(), *q.qc, fix.Batch(fix.Cmd(7, 9)), v, leaderRR(v))
		e.blocks = append(e.blocks, b)
		certs := []*c07Cert{q}
		pm := hotstuff.ProposeMsg{ID: leaderRR(v), Block: b}
		if a != nil {
			pm.AggregateQC = a.agg
			certs = append(certs, a)
		}
		e.ops = append(e.ops, c07Op{name: name, certs: certs, ev: func() any { return pm }})
	}
	prop("propose(v2, QC(v1))", b1, q1, nil, 2)
	prop("propose(v4, QC(v3))", b3, q3, nil, 4)
	prop("propose(v8, QC(v7,two-signers))", bx, qf, nil, 8)
	prop("propose(v6, QC(v1-relabelled-v5))", b1, qr, nil, 6)
	prop("propose(v10, QC(genesis-relabelled-v9))", g, qg, nil, 10)
	if agg {
		prop("propose(v3, QC(v1), AggQC(v2))", b1, q1, aggs[1], 3)
		prop("propose(v11, QC(v1), AggQC(v10,two-signers))", b1, q1, aggs[2], 11)
	}
	return e
}

type c07Sys struct {
	e        *c07Env
	n        *node.Node
	maxValid int           // highest view of a genuine certificate delivered so far (-1: none)
	validQC  map[hotstuff.Hash]bool
	trace    []string
}

func (e *c07Env) newSys() *c07Sys {
	s := &c07Sys{e: e, maxValid: -1, validQC: map[hotstuff.Hash]bool{hotstuff.GetGenesis().Hash(): true}}
	snd := &fix.Sender{ID: 1, Fetch: func(h hotstuff.Hash) (*hotstuff.Block, bool) {
		for _, b := range e.blocks {
			if b.Hash() == h {
				return b, true
			}
		}
		return nil, false
	}}
	s.n = node.New(node.Opts{ID: 1, N: 4, Scheme: crypto.NameEDDSA, Rules: e.rules, Leader: node.LeaderFunc(leaderRR), Sender: snd, Cache: e.cache})
	s.n.AddPeerConfigs(e.c.Cfgs)
	s.n.StockCommands(9, 1, 8)
	return s
}

func (s *c07Sys) Apply(op int) string {
	o := s.e.ops[op]
	s.trace = append(s.trace, o.name)
	v0, hq0, changes0 := s.n.VS.View(), s.n.VS.HighQC(), len(s.n.ViewChanges)
	htc0, com0 := s.n.VS.HighTC().View(), s.n.VS.CommittedBlock().View()
	var note func(c *c07Cert)
	note = func(c *c07Cert) {
		if !c.valid {
			return
		}
		if int(c.view) > s.maxValid {
			s.maxValid = int(c.view)
		}
		if c.qc != nil {
			s.validQC[c.qc.BlockHash()] = true
		}
		for _, in := range c.inner {
			note(in)
		}
	}
	for _, c := range o.certs {
		note(c)
	}
	if pan, site := safelySite(func() { s.n.Deliver(o.ev()) }); pan != nil {
		return fmt.Sprintf("panic in %s: %v", site, pan)
	}
	v1, hq1 := s.n.VS.View(), s.n.VS.HighQC()
	if v1 < v0 || hq1.View() < hq0.View() || s.n.VS.HighTC().View() < htc0 || s.n.VS.CommittedBlock().View() < com0 {
		return fmt.Sprintf("a counter decreased: view %d->%d, high QC view %d->%d, high TC view %d->%d, committed view %d->%d", v0, v1, hq0.View(), hq1.View(), htc0, s.n.VS.HighTC().View(), com0, s.n.VS.CommittedBlock().View())
	}
	if d := int(v1 - v0); d != len(s.n.ViewChanges)-changes0 {
		return fmt.Sprintf("view %d->%d but %d view-change events", v0, v1, len(s.n.ViewChanges)-changes0)
	}
	for i := changes0; i < len(s.n.ViewChanges); i++ {
		if want := v0 + hotstuff.View(i-changes0) + 1; s.n.ViewChanges[i].View != want {
			return fmt.Sprintf("view-change event announces view %d, expected %d", s.n.ViewChanges[i].View, want)
		}
	}
	for v := v0; v < v1; v++ {
		if int(v) > s.maxValid {
			return fmt.Sprintf("left view %d although the highest genuine certificate delivered so far is for view %d", v, s.maxValid)
		}
	}
	if hq1.BlockHash() != hq0.BlockHash() || hq1.View() != hq0.View() {
		if !s.validQC[hq1.BlockHash()] {
			return fmt.Sprintf("high QC replaced by a certificate (view %d) that is not one of the genuine QCs delivered", hq1.View())
		}
		if b, ok := s.n.Chain.LocalGet(hq1.BlockHash()); ok && b.View() != hq1.View() {
			return fmt.Sprintf("high QC labelled view %d names a block of view %d", hq1.View(), b.View())
		}
	}
	return ""
}

func (s *c07Sys) Key() string {
	return fmt.Sprintf("%d|%d|", s.n.VS.View(), s.maxValid) + dump.Fields(s.n.VS, nil, "highQC", "highTC", "committedBlock") +
		dump.Fields(s.n.Voter, nil, "lastVotedView") + dump.Fields(s.n.Rules, nil, "bLock", "locked") + dump.Fields(s.n.Loop, nil, "waitingEvents") + c07known(s)
}

func c07known(s *c07Sys) string {
	var hs []string
	for h := range s.validQC {
		hs = append(hs, h.SmallString())
	}
	sort.Strings(hs)
	return strings.Join(hs, ",")
}

func c07Local(r *ev.Reporter) {
	depth := 4
	if !r.Quick() {
		depth = 5
	}
	var sum []string
	for _, cfg := range []struct {
		rs    string
		cache uint
	}{{rules.NameChainedHotStuff, 0}, {rules.NameFastHotStuff, 0}, {rules.NameChainedHotStuff, 8}, {rules.NameFastHotStuff, 8}} {
		rs := cfg.rs
		e := newC07Env(rs, cfg.cache)
		// With a signature cache the replica has hidden state (which verifications it remembers), so
		// states are not merged there: every sequence is run, one level (two for the larger
		// aggregate-rule alphabet) shallower.
		d, dedup := depth, true
		if cfg.cache > 0 {
			dedup = false
			d = 3 // 63^3 = 2.5*10^5 sequences
			if rs == rules.NameFastHotStuff {
				d = 2 // 185^2 = 3.4*10^4 sequences
			}
			// (the same in both tiers: one level more costs 63x / 185x)
		}
		st := seq.Run(seq.Config{NumOps: len(e.ops), MaxDepth: d, Dedup: dedup, New: func() seq.System { return e.newSys() },
			Stop: func() bool { return r.Violations() > 6 },
			OnFail: func(ops []int, msg string) {
				names := make([]string, len(ops))
				for i, o := range ops {
					names[i] = e.ops[o].name
				}
				r.Violation(fmt.Sprintf("C07 %s single replica: %s", rs, classify(msg)), fmt.Sprintf("%s cache=%d, one replica (id 1, n=4, round-robin leaders) against an environment holding the other keys, inputs [%s]: %s", rs, cfg.cache, strings.Join(names, "; "), msg), map[string]any{"ruleset": rs, "ops": names})
			}})
		r.Count(st.States, st.Transitions, st.Transitions, st.States)
		sum = append(sum, fmt.Sprintf("%s cache=%d: depth=%d merged=%v inputs=%d states=%d transitions=%d", rs, cfg.cache, d, dedup, len(e.ops), st.States, st.Transitions))
		fmt.Println("single replica, " + sum[len(sum)-1])
	}
	r.Extra["single_replica_part"] = sum
	r.Sample("single replica (aggregate rule): newview{TC(v9,two-signers)+AggQC(v2)} -> may move one view on AggQC(v2) only while in view <= 2")
}
