package props

import (
	"bytes"
	"fmt"
	"math"
	"time"

	"github.com/relab/hotstuff"
	"github.com/relab/hotstuff/internal/proto/clientpb"
	"github.com/relab/hotstuff/internal/proto/hotstuffpb"
	"github.com/relab/hotstuff/security/crypto"
	"github.com/relab/hotstuff/zverif/ev"
	"github.com/relab/hotstuff/zverif/fix"
	"github.com/relab/hotstuff/zverif/par"
	"google.golang.org/protobuf/proto"
)

func init() { Registry["C12"] = c12 }

func wire[T proto.Message](in T, out T) T {
	b, err := proto.Marshal(in)
	if err != nil {
		panic(err)
	}
	if err := proto.Unmarshal(b, out); err != nil {
		panic(err)
	}
	return out
}

func partsOf(s hotstuff.QuorumSignature) string {
	if s == nil {
		return "nil"
	}
	var ids []hotstuff.ID
	s.Participants().ForEach(func(id hotstuff.ID) { ids = append(ids, id) })
	return fmt.Sprint(ids)
}

func sigSame(a, b hotstuff.QuorumSignature) string {
	if (a == nil) != (b == nil) {
		// an empty signature object and an absent one are the same thing on the wire only if both are empty
		if a != nil && a.Participants().Len() == 0 && len(a.ToBytes()) == 0 {
			return ""
		}
		return fmt.Sprintf("signature presence changed (%v -> %v)", a != nil, b != nil)
	}
	if a == nil {
		return ""
	}
	if !bytes.Equal(a.ToBytes(), b.ToBytes()) {
		return "signature bytes changed"
	}
	if partsOf(a) != partsOf(b) {
		return fmt.Sprintf("participants changed %s -> %s", partsOf(a), partsOf(b))
	}
	return ""
}

func c12(r *ev.Reporter, _ []string) {
	r.Rule = "product grammar of protocol objects (signature: absent/empty/1..n signers; QC, TC, AggQC with 0..n entries incl. ids 0 and 2^32-1, sync info in all 8 presence combinations, timeout message with/without message signature, partial cert, block with parent/batch/QC/view/proposer/timestamp extremes, proposal with/without AggQC) x schemes, each sent through ToProto -> Marshal -> Unmarshal -> FromProto; oracle = equal hash, bytes-to-sign, participants, claimed views and equal authority verdict; distinct = distinct objects"
	schemes := []string{crypto.NameEDDSA, crypto.NameECDSA, crypto.NameBLS12}
	ns := []int{1, 2, 4}
	if !r.Quick() {
		ns = []int{1, 2, 3, 4, 7}
	}
	type job struct {
		scheme string
		n      int
	}
	var jobs []job
	for _, s := range schemes {
		for _, n := range ns {
			if s == crypto.NameBLS12 && n > 4 {
				continue
			}
			jobs = append(jobs, job{s, n})
		}
	}
	par.Each(len(jobs), func(i int) { c12Config(r, jobs[i].scheme, jobs[i].n) })
	r.Traces = r.Evaluations
	r.Sample("eddsa n=4: block{parent=zero, batch=3 cmds (one with empty data), QC=3 signers view 1, view=2^64-1, proposer=2^32-1, ts=1969-12-31T23:59:59.999999877Z}")
	r.Sample("bls12 n=2: SyncInfo{QC, TC, AggQC{0:genesis, 4294967295:QC}}")
	r.Explanation = "Each object passes through the real conversion functions and protobuf marshal/unmarshal; verdicts come from the real cert.Authority of a replica that holds the referenced block."
}

func c12Config(r *ev.Reporter, scheme string, n int) {
	c := fix.NewCluster(n, scheme, fix.Opts{AggQC: true})
	ver := c.Auths[n-1]
	tag := fmt.Sprintf("%s n=%d", scheme, n)
	var cnt int64
	fail := func(kind, desc, msg string) {
		r.Violation(fmt.Sprintf("C12 %s %s: %s", kind, scheme, classify(msg)), fmt.Sprintf("%s %s %s: %s", tag, kind, desc, msg), map[string]any{"config": tag, "kind": kind, "object": desc})
	}
	bA := hotstuff.NewBlock(hotstuff.GetGenesis().Hash(), fix.GenesisQC(), fix.Batch(fix.Cmd(1, 1)), 1, 1)
	c.StoreAll(bA)
	// signatures over bA with 1..n signers, plus absent and empty
	type sigV struct {
		name string
		sig  hotstuff.QuorumSignature
	}
	sigs := []sigV{{"absent", nil}}
	switch scheme {
	case crypto.NameEDDSA:
		sigs = append(sigs, sigV{"empty", crypto.NewMulti[*crypto.EDDSASignature]()})
	case crypto.NameECDSA:
		sigs = append(sigs, sigV{"empty", crypto.NewMulti[*crypto.ECDSASignature]()})
	}
	for k := 1; k <= n; k++ {
		sigs = append(sigs, sigV{fmt.Sprintf("%d-signers", k), c.Combine(c.SignBlock(bA, fix.Range(k)...)...)})
	}
	if n >= 3 {
		// signers in arrival order, not ascending (votes reach the leader in any order)
		idx := append([]int{n - 1}, fix.Range(n - 1)...)
		idx[1], idx[len(idx)-1] = idx[len(idx)-1], idx[1]
		sigs = append(sigs, sigV{fmt.Sprintf("signers-in-order-%v", idx), c.Combine(c.SignBlock(bA, idx...)...)})
	}
	if n >= 2 {
		sigs = append(sigs, sigV{"signers-descending", c.Combine(c.SignBlock(bA, n-1, 0)...)})
		// a non-prefix signer set (ids 2..n)
		idx := fix.Range(n)[1:]
		sigs = append(sigs, sigV{"signers-2..n", c.Combine(c.SignBlock(bA, idx...)...)})
	}
	views := []hotstuff.View{0, 1, math.MaxUint64}
	hashes := []hotstuff.Hash{{}, hotstuff.GetGenesis().Hash(), bA.Hash()}
	verd := func(f func() error) string {
		var err error
		if p := safely(func() { err = f() }); p != nil {
			return "panic"
		}
		if err == nil {
			return "valid"
		}
		return "invalid"
	}
	// --- quorum signature, partial cert, QC
	var qcs []hotstuff.QuorumCert
	for _, s := range sigs {
		if p := safely(func() {
			back := hotstuffpb.QuorumSignatureFromProto(wire(hotstuffpb.QuorumSignatureToProto(s.sig), &hotstuffpb.QuorumSignature{}))
			if m := sigSame(s.sig, back); m != "" {
				fail("QuorumSignature", s.name, m)
			}
		}); p != nil {
			fail("QuorumSignature", s.name, fmt.Sprintf("panic: %v", p))
		}
		cnt++
		for _, v := range views {
			for _, h := range hashes {
				qc := hotstuff.NewQuorumCert(s.sig, v, h)
				qcs = append(qcs, qc)
				desc := fmt.Sprintf("QC{sig=%s view=%d hash=%s}", s.name, v, h.SmallString())
				if p := safely(func() {
					back := hotstuffpb.QuorumCertFromProto(wire(hotstuffpb.QuorumCertToProto(qc), &hotstuffpb.QuorumCert{}))
					switch {
					case back.View() != qc.View() || back.BlockHash() != qc.BlockHash():
						fail("QC", desc, "view or hash changed")
					case !bytes.Equal(back.ToBytes(), qc.ToBytes()):
						fail("QC", desc, "ToBytes changed")
					case sigSame(qc.Signature(), back.Signature()) != "":
						fail("QC", desc, sigSame(qc.Signature(), back.Signature()))
					case verd(func() error { return ver.VerifyQuorumCert(qc) }) != verd(func() error { return ver.VerifyQuorumCert(back) }):
						fail("QC", desc, "verification verdict changed")
					}
				}); p != nil {
					fail("QC", desc, fmt.Sprintf("panic: %v", p))
				}
				cnt++
			}
		}
		if s.sig != nil && s.sig.Participants().Len() >= 1 {
			pc := hotstuff.NewPartialCert(s.sig, bA.Hash())
			if p := safely(func() {
				back := hotstuffpb.PartialCertFromProto(wire(hotstuffpb.PartialCertToProto(pc), &hotstuffpb.PartialCert{}))
				switch {
				case back.BlockHash() != pc.BlockHash() || back.Signer() != pc.Signer():
					fail("PartialCert", s.name, "hash or signer changed")
				case !bytes.Equal(back.ToBytes(), pc.ToBytes()):
					fail("PartialCert", s.name, "ToBytes changed")
				case verd(func() error { return ver.VerifyPartialCert(pc) }) != verd(func() error { return ver.VerifyPartialCert(back) }):
					fail("PartialCert", s.name, "verification verdict changed")
				}
			}); p != nil {
				fail("PartialCert", s.name, fmt.Sprintf("panic: %v", p))
			}
			cnt++
		}
	}
	// --- TC
	var tcs []hotstuff.TimeoutCert
	for k := 1; k <= n; k++ {
		for _, v := range []hotstuff.View{1, 5, math.MaxUint64} {
			tc := hotstuff.NewTimeoutCert(c.Combine(c.SignBytes(v.ToBytes(), fix.Range(k)...)...), v)
			tcs = append(tcs, tc)
			desc := fmt.Sprintf("TC{%d signers view=%d}", k, v)
			if p := safely(func() {
				back := hotstuffpb.TimeoutCertFromProto(wire(hotstuffpb.TimeoutCertToProto(tc), &hotstuffpb.TimeoutCert{}))
				switch {
				case back.View() != tc.View() || !bytes.Equal(back.ToBytes(), tc.ToBytes()):
					fail("TC", desc, "view or bytes changed")
				case sigSame(tc.Signature(), back.Signature()) != "":
					fail("TC", desc, sigSame(tc.Signature(), back.Signature()))
				case verd(func() error { return ver.VerifyTimeoutCert(tc) }) != verd(func() error { return ver.VerifyTimeoutCert(back) }):
					fail("TC", desc, "verification verdict changed")
				}
			}); p != nil {
				fail("TC", desc, fmt.Sprintf("panic: %v", p))
			}
			cnt++
		}
	}
	// --- AggQC: 0..n entries (+ ids 0 and 2^32-1), each attesting genesis or a real QC
	qidx := fix.Range(hotstuff.QuorumSize(n))
	if len(qidx) >= 2 {
		qidx[0], qidx[len(qidx)-1] = qidx[len(qidx)-1], qidx[0] // arrival order, not ascending
	}
	goodQC := c.QC(bA, qidx...)
	// a second, different certificate for the same block (another quorum, or the same one in another
	// arrival order): replicas may report different QCs for one block in an aggregate QC
	qidx2 := make([]int, 0, len(qidx))
	for i := n - 1; i >= 0 && len(qidx2) < len(qidx); i-- {
		qidx2 = append(qidx2, i)
	}
	goodQC2 := c.QC(bA, qidx2...)
	var aggs []hotstuff.AggregateQC
	for k := 0; k <= n; k++ {
		for _, extra := range [][]hotstuff.ID{nil, {0}, {math.MaxUint32}} {
			for _, v := range []hotstuff.View{0, 7, math.MaxUint64} {
				qm := map[hotstuff.ID]hotstuff.QuorumCert{}
				var ss []hotstuff.QuorumSignature
				for i := 0; i < k; i++ {
					id := hotstuff.ID(i + 1)
					q := fix.GenesisQC()
					if i%2 == 1 {
						q = goodQC
					}
					if i%3 == 2 {
						q = goodQC2
					}
					qm[id] = q
					ss = append(ss, c.SignBytes(hotstuff.TimeoutMsg{ID: id, View: v, SyncInfo: hotstuff.NewSyncInfoWith(q)}.ToBytes(), i)...)
				}
				for _, id := range extra {
					qm[id] = goodQC
				}
				var sig hotstuff.QuorumSignature
				if len(ss) > 0 {
					sig = c.Combine(ss...)
				}
				agg := hotstuff.NewAggregateQC(qm, sig, v)
				aggs = append(aggs, agg)
				desc := fmt.Sprintf("AggQC{%d entries extra=%v view=%d}", k, extra, v)
				if p := safely(func() {
					back := hotstuffpb.AggregateQCFromProto(wire(hotstuffpb.AggregateQCToProto(agg), &hotstuffpb.AggQC{}))
					if m := c12AggSame(agg, back); m != "" {
						fail("AggQC", desc, m)
					} else if sig != nil {
						v1 := verd(func() error { _, e := ver.VerifyAggregateQC(agg); return e })
						v2 := verd(func() error { _, e := ver.VerifyAggregateQC(back); return e })
						if v1 != v2 {
							fail("AggQC", desc, fmt.Sprintf("verification verdict changed %s -> %s", v1, v2))
						}
					}
				}); p != nil {
					fail("AggQC", desc, fmt.Sprintf("panic: %v", p))
				}
				cnt++
			}
		}
	}
	// --- SyncInfo: all 8 presence combinations; timeout messages
	// (the QC is a quorum certificate, the signature-less genesis certificate every replica starts with, or
	// a signature-less certificate naming another block)
	qcChoice := []struct {
		name string
		qc   *hotstuff.QuorumCert
	}{{"none", nil}, {"quorum", &goodQC}, {"genesis(no signature)", ptr(fix.GenesisQC())}, {"unsigned(view 3)", ptr(hotstuff.NewQuorumCert(nil, 3, bA.Hash()))}}
	for mask := 0; mask < 16; mask++ {
		si := hotstuff.NewSyncInfo()
		qcc := qcChoice[mask&1+(mask>>3)*2]
		if qcc.qc != nil {
			si.SetQC(*qcc.qc)
		}
		if mask&2 != 0 {
			si.SetTC(tcs[len(tcs)-2])
		}
		if mask&4 != 0 {
			si.SetAggQC(aggs[len(aggs)-2])
		}
		desc := fmt.Sprintf("SyncInfo{qc=%s tc=%v agg=%v}", qcc.name, mask&2 != 0, mask&4 != 0)
		same := func(a, b hotstuff.SyncInfo) string {
			q1, o1 := a.QC()
			q2, o2 := b.QC()
			t1, p1 := a.TC()
			t2, p2 := b.TC()
			a1, r1 := a.AggQC()
			a2, r2 := b.AggQC()
			switch {
			case o1 != o2 || p1 != p2 || r1 != r2:
				return "presence of QC/TC/AggQC changed"
			case o1 && !bytes.Equal(q1.ToBytes(), q2.ToBytes()):
				return "QC changed"
			case p1 && !bytes.Equal(t1.ToBytes(), t2.ToBytes()):
				return "TC changed"
			case r1 && c12AggSame(a1, a2) != "":
				return c12AggSame(a1, a2)
			}
			return ""
		}
		if p := safely(func() {
			back := hotstuffpb.SyncInfoFromProto(wire(hotstuffpb.SyncInfoToProto(si), &hotstuffpb.SyncInfo{}))
			if m := same(si, back); m != "" {
				fail("SyncInfo", desc, m)
			}
			for _, withMsgSig := range []bool{false, true} {
				for _, v := range []hotstuff.View{1, math.MaxUint64} {
					tm := hotstuff.TimeoutMsg{ID: 1, View: v, SyncInfo: si, ViewSignature: c.SignBytes(v.ToBytes(), 0)[0]}
					if withMsgSig {
						tm.MsgSignature = c.SignBytes(tm.ToBytes(), 0)[0]
					}
					tb := hotstuffpb.TimeoutMsgFromProto(wire(hotstuffpb.TimeoutMsgToProto(tm), &hotstuffpb.TimeoutMsg{}))
					tb.ID = tm.ID // the receiver takes the sender id from the connection
					switch {
					case tb.View != tm.View || !bytes.Equal(tb.ToBytes(), tm.ToBytes()):
						fail("TimeoutMsg", desc, "view or bytes-to-sign changed")
					case sigSame(tm.ViewSignature, tb.ViewSignature) != "" || sigSame(tm.MsgSignature, tb.MsgSignature) != "":
						fail("TimeoutMsg", desc, "signatures changed")
					case same(tm.SyncInfo, tb.SyncInfo) != "":
						fail("TimeoutMsg", desc, "sync info changed: "+same(tm.SyncInfo, tb.SyncInfo))
					case verd(func() error { return ver.Verify(tm.ViewSignature, tm.View.ToBytes()) }) != verd(func() error { return ver.Verify(tb.ViewSignature, tb.View.ToBytes()) }):
						fail("TimeoutMsg", desc, "view signature verdict changed")
					}
					cnt++
				}
			}
		}); p != nil {
			fail("SyncInfo", desc, fmt.Sprintf("panic: %v", p))
		}
		cnt++
	}
	// --- blocks and proposals
	batches := []*clientpb.Batch{nil, {}, fix.Batch(fix.Cmd(1, 1)), {Commands: []*clientpb.Command{{ClientID: 1, SequenceNumber: 1}, {ClientID: math.MaxUint32, SequenceNumber: math.MaxUint64, Data: []byte{}}, {ClientID: 2, SequenceNumber: 3, Data: []byte("payload")}}}}
	times := []time.Time{time.Unix(0, 0), time.Unix(0, 1), time.Unix(-1, 999999877), time.Date(2025, 6, 1, 12, 0, 0, 123456789, time.UTC), time.Date(1969, 12, 31, 23, 59, 59, 5, time.FixedZone("x", 3600)), time.Unix(253402300799, 999999999)}
	blockQCs := []hotstuff.QuorumCert{{}, fix.GenesisQC(), goodQC, hotstuff.NewQuorumCert(sigs[len(sigs)-1].sig, math.MaxUint64, hotstuff.Hash{0xff})}
	ns := &netSender{mode: peerHonest, remote: map[hotstuff.Hash]*hotstuff.Block{}}
	chain, _ := newChain(ns)
	for _, parent := range []hotstuff.Hash{{}, bA.Hash()} {
		for bi, batch := range batches {
			for qi, qc := range blockQCs {
				for _, v := range views {
					for _, prop := range []hotstuff.ID{0, 1, math.MaxUint32} {
						for ti, ts := range times {
							if (bi+qi+ti)%2 == 1 && v == 1 {
								continue // thin out the product a little; every value still meets every other
							}
							blk := hotstuff.NewBlock(parent, qc, batch, v, prop)
							blk.SetTimestamp(ts)
							desc := fmt.Sprintf("Block{parent=%s batch#%d qc#%d view=%d proposer=%d ts=%s}", parent.SmallString(), bi, qi, v, prop, ts.UTC().Format(time.RFC3339Nano))
							if p := safely(func() {
								back := hotstuffpb.BlockFromProto(wire(hotstuffpb.BlockToProto(blk), &hotstuffpb.Block{}))
								switch {
								case back.Hash() != blk.Hash():
									fail("Block", desc, "hash changed")
								case !bytes.Equal(back.ToBytes(), blk.ToBytes()):
									fail("Block", desc, "ToBytes changed")
								case back.View() != blk.View() || back.Proposer() != blk.Proposer() || back.Parent() != blk.Parent() || !back.Timestamp().Equal(blk.Timestamp()):
									fail("Block", desc, "a field changed")
								case len(back.Commands().GetCommands()) != len(blk.Commands().GetCommands()):
									fail("Block", desc, "commands changed")
								}
								// proposal with and without an aggregate QC
								for _, withAgg := range []bool{false, true} {
									pm := hotstuff.ProposeMsg{ID: prop, Block: blk}
									if withAgg {
										a := aggs[len(aggs)-2]
										pm.AggregateQC = &a
									}
									pb := hotstuffpb.ProposalFromProto(wire(hotstuffpb.ProposalToProto(pm), &hotstuffpb.Proposal{}))
									if pb.Block.Hash() != blk.Hash() || (pb.AggregateQC != nil) != withAgg {
										fail("Proposal", desc, "block hash or AggQC presence changed")
									} else if withAgg && c12AggSame(*pm.AggregateQC, *pb.AggregateQC) != "" {
										fail("Proposal", desc, c12AggSame(*pm.AggregateQC, *pb.AggregateQC))
									}
								}
								// fetched by hash through the network layer: the block that hash names
								if ti == 0 {
									ns.remote[blk.Hash()] = blk
									got, ok := chain.Get(blk.Hash())
									if !ok || got.Hash() != blk.Hash() {
										fail("Block", desc, "block fetched by hash is missing or has another hash")
									}
								}
							}); p != nil {
								fail("Block", desc, fmt.Sprintf("panic: %v", p))
							}
							cnt++
						}
					}
				}
			}
		}
	}
	_ = qcs
	r.Count(cnt, cnt*2, cnt, cnt)
}

func c12AggSame(a, b hotstuff.AggregateQC) string {
	if a.View() != b.View() {
		return "AggQC view changed"
	}
	if m := sigSame(a.Sig(), b.Sig()); m != "" {
		return "AggQC " + m
	}
	if len(a.QCs()) != len(b.QCs()) {
		return fmt.Sprintf("AggQC entry count changed %d -> %d", len(a.QCs()), len(b.QCs()))
	}
	for id, q := range a.QCs() {
		q2, ok := b.QCs()[id]
		if !ok || !bytes.Equal(q.ToBytes(), q2.ToBytes()) {
			return fmt.Sprintf("AggQC entry of id %d changed", id)
		}
	}
	return ""
}

func ptr[T any](v T) *T { return &v }
