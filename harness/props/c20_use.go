package props

import (
	"fmt"

	"github.com/relab/hotstuff"
	"github.com/relab/hotstuff/security/crypto"
	"github.com/relab/hotstuff/zverif/ev"
	"github.com/relab/hotstuff/zverif/fix"
)

func thresholdCerts(r *ev.Reporter, n int) {
	q := hotstuff.QuorumSize(n)
	c := fix.NewCluster(n, crypto.NameEDDSA, fix.Opts{AggQC: true})
	for i, cfg := range c.Cfgs {
		r.Evaluations++
		if cfg.QuorumSize() != q {
			r.Violation(fmt.Sprintf("RuntimeConfig.QuorumSize n=%d", n), fmt.Sprintf("replica %d reports %d want %d", i+1, cfg.QuorumSize(), q), map[string]any{"n": n})
		}
	}
	b := hotstuff.NewBlock(hotstuff.GetGenesis().Hash(), fix.GenesisQC(), fix.Batch(), 1, 1)
	c.StoreAll(b)
	v := n - 1 // verifier: a replica that did not build the certificate
	for _, k := range []int{q - 1, q} {
		want := k >= q
		// QC
		var qc hotstuff.QuorumCert
		if k == 0 {
			qc = hotstuff.NewQuorumCert(crypto.NewMulti[*crypto.EDDSASignature](), b.View(), b.Hash())
		} else {
			qc = c.QC(b, fix.Range(k)...)
		}
		got := c.Auths[v].VerifyQuorumCert(qc) == nil
		r.Evaluations++
		r.Transitions++
		if got != want {
			r.Violation(fmt.Sprintf("VerifyQuorumCert threshold n=%d k=%d", n, k), fmt.Sprintf("n=%d q=%d: QC with %d distinct signers accepted=%v", n, q, k, got), map[string]any{"n": n, "k": k})
		}
		// TC
		var tsig hotstuff.QuorumSignature = crypto.NewMulti[*crypto.EDDSASignature]()
		if k > 0 {
			tsig = c.Combine(c.SignBytes(hotstuff.View(5).ToBytes(), fix.Range(k)...)...)
		}
		got = c.Auths[v].VerifyTimeoutCert(hotstuff.NewTimeoutCert(tsig, 5)) == nil
		r.Evaluations++
		r.Transitions++
		if got != want {
			r.Violation(fmt.Sprintf("VerifyTimeoutCert threshold n=%d k=%d", n, k), fmt.Sprintf("n=%d q=%d: TC with %d distinct signers accepted=%v", n, q, k, got), map[string]any{"n": n, "k": k})
		}
		// AggQC
		if k > 0 {
			qcs := map[hotstuff.ID]hotstuff.QuorumCert{}
			var sigs []hotstuff.QuorumSignature
			for i := 0; i < k; i++ {
				id := hotstuff.ID(i + 1)
				qcs[id] = fix.GenesisQC()
				tm := hotstuff.TimeoutMsg{ID: id, View: 5, SyncInfo: hotstuff.NewSyncInfoWith(fix.GenesisQC())}
				sigs = append(sigs, c.SignBytes(tm.ToBytes(), i)...)
			}
			agg := hotstuff.NewAggregateQC(qcs, c.Combine(sigs...), 5)
			_, err := c.Auths[v].VerifyAggregateQC(agg)
			got = err == nil
			r.Evaluations++
			r.Transitions++
			if got != want {
				r.Violation(fmt.Sprintf("VerifyAggregateQC threshold n=%d k=%d", n, k), fmt.Sprintf("n=%d q=%d: AggQC with %d distinct signers accepted=%v", n, q, k, got), map[string]any{"n": n, "k": k})
			}
		}
	}
}
