package props

import (
	"regexp"
	"context"
	"fmt"
	"sort"
	"strings"

	"github.com/relab/hotstuff/core/eventloop"
	"github.com/relab/hotstuff/zverif/ev"
	"github.com/relab/hotstuff/zverif/fix"
	"github.com/relab/hotstuff/zverif/mcrt"
)

type evP struct{ P, N int } // event N of producer P

// c14Concurrent: concurrent producers, the consumer in Run, and a canceller, under the
// controlled scheduler (engine E2).
func c14Concurrent(r *ev.Reporter) {
	if !mcrtAvailable() {
		r.Assume("concurrent part skipped: binary built without the scheduler overlay")
		return
	}
	bound := 2
	if !r.Quick() {
		bound = 3
	}
	type scen struct {
		name      string
		producers int
		events    int
		capacity  uint
		cancel    bool
		bound     int
	}
	scens := []scen{
		{"2 producers x 2 events, capacity 8, canceller after producers", 2, 2, 8, true, bound},
		{"3 producers x 1 event, capacity 8, canceller after producers", 3, 1, 8, true, bound - 1},
		{"2 producers x 2 events, capacity 2 (overflow), canceller after producers", 2, 2, 2, true, bound},
		{"2 producers x 1 event, capacity 8, no canceller (stall observation)", 2, 1, 8, false, bound},
	}
	var summary []string
	var stalls int64
	for _, sc := range scens {
		sc := sc
		run := func(s *mcrt.Sched) (string, string) {
			lg := &fix.NopLogger{Keep: true}
			var handled []evP
			var el *eventloop.EventLoop
			runDone := false
			s.Run(func() {
				el = eventloop.New(lg, sc.capacity)
				eventloop.Register(el, func(e evP) { handled = append(handled, e) })
				ctx, cancel := context.WithCancel(context.Background())
				mcrt.GoNamed("consumer", func() { el.Run(ctx); runDone = true })
				for p := 1; p <= sc.producers; p++ {
					p := p
					mcrt.GoNamed(fmt.Sprintf("producer%d", p), func() {
						for n := 1; n <= sc.events; n++ {
							el.AddEvent(evP{p, n})
						}
					})
				}
				if sc.cancel {
					mcrt.GoNamed("canceller", func() {
						for p := 1; p <= sc.producers; p++ {
							mcrt.Join(fmt.Sprintf("producer%d", p))
						}
						cancel()
					})
				} else {
					_ = cancel
				}
			})
			if s.Broken != "" {
				return "", "harness: " + s.Broken
			}
			// oracle
			count := map[evP]int{}
			last := map[int]int{}
			var order []string
			for _, e := range handled {
				count[e]++
				order = append(order, fmt.Sprintf("%d.%d", e.P, e.N))
				if e.N <= last[e.P] {
					return strings.Join(order, " "), fmt.Sprintf("events of producer %d handled out of order: %v", e.P, order)
				}
				last[e.P] = e.N
			}
			dropped := map[evP]int{}
			for _, wmsg := range lg.Warns {
				// the report names the event as {producer number}; wording and level do not matter
				if m := evPToken.FindStringSubmatch(wmsg); m != nil {
					var e evP
					fmt.Sscanf(m[0], "{%d %d}", &e.P, &e.N)
					dropped[e]++
				}
			}
			for p := 1; p <= sc.producers; p++ {
				for n := 1; n <= sc.events; n++ {
					e := evP{p, n}
					switch {
					case count[e] > 1:
						return strings.Join(order, " "), fmt.Sprintf("event %v handled %d times", e, count[e])
					case count[e] == 1 && dropped[e] > 0:
						return strings.Join(order, " "), fmt.Sprintf("event %v was handled and also reported as dropped", e)
					case dropped[e] > 1:
						return strings.Join(order, " "), fmt.Sprintf("event %v reported as dropped %d times", e, dropped[e])
					case count[e] == 0 && dropped[e] == 0 && runDone:
						return strings.Join(order, " "), fmt.Sprintf("event %v was neither handled nor reported as dropped although the loop drained and returned", e)
					}
				}
			}
			if int(sc.capacity) >= sc.producers*sc.events && len(dropped) > 0 {
				return strings.Join(order, " "), fmt.Sprintf("events reported as dropped below capacity: %v", dropped)
			}
			if sc.cancel && !runDone {
				return strings.Join(order, " "), "Run did not return after cancellation"
			}
			if !sc.cancel && s.Deadlock && len(handled) < sc.producers*sc.events {
				stalls++ // consumer parked while events are queued: observation, not part of C14
			}
			sort.Strings(order)
			return fmt.Sprintf("handled=%d dropped=%d", len(handled), len(dropped)), ""
		}
		res := mcrt.Explore(sc.bound, 0, run, func(f mcrt.Failure) {
			r.Violation("C14 concurrent: "+classify(f.Msg), fmt.Sprintf("scenario %q, schedule [%s]: %s", sc.name, strings.Join(f.Trace, " "), f.Msg), map[string]any{"scenario": sc.name, "choices": f.Choices, "trace": f.Trace})
		}, func() bool { return r.Violations() > 5 })
		if res.Broken != "" {
			ev.Broken("C14 scheduler: %s", res.Broken)
		}
		r.Count(res.Executions, res.Steps, res.Executions, int64(len(res.Outcomes)))
		summary = append(summary, fmt.Sprintf("%s: executions=%d steps=%d completed_preemption_bound=%d (of %d) distinct_outcomes=%d", sc.name, res.Executions, res.Steps, res.Completed, sc.bound, len(res.Outcomes)))
	}
	r.Extra["concurrent_scenarios"] = summary
	r.Extra["concurrent_preemption_bound"] = bound
	r.Extra["observation_consumer_stalled_with_events_queued"] = stalls
	r.Assume("a consumer that parks in Run while an event is queued (missed ready signal) is recorded as an observation only: C14 is about order and multiplicity, not promptness")
}

// mcrtAvailable reports whether the explored files were compiled against the controlled runtime.
func mcrtAvailable() bool {
	probe := false
	s := &mcrt.Sched{}
	s.Run(func() {
		el := eventloop.New(&fix.NopLogger{}, 2)
		before := len(s.Steps)
		el.AddEvent(evP{0, 0})
		probe = len(s.Steps) > before
	})
	return probe
}

var evPToken = regexp.MustCompile(`\{\d+ \d+\}`)
