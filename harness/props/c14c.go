package props

import "github.com/relab/hotstuff/zverif/ev"

// c14Concurrent is the controlled-scheduler part (E2); filled in by sched build.
func c14Concurrent(r *ev.Reporter) {}
