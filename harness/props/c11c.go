package props

import (
	"fmt"
	"strings"

	"github.com/relab/hotstuff/security/cert"
	"github.com/relab/hotstuff/security/crypto"
	"github.com/relab/hotstuff/zverif/ev"
	"github.com/relab/hotstuff/zverif/mcrt"
)

// c11Concurrent: two requests issued concurrently to one cached authority (votes are verified on
// separate goroutines in production), every schedule of the cache's critical sections within the
// preemption bound. The verdict of each request must be the uncached authority's verdict for the same
// input, whatever the other request is doing.
func c11Concurrent(r *ev.Reporter) []string {
	if !mcrtAvailable() {
		r.Assume("concurrent part skipped: binary built without the scheduler overlay")
		return nil
	}
	bound := 2
	var out []string
	for _, scheme := range []string{crypto.NameEDDSA, crypto.NameECDSA} {
		for _, capacity := range []uint{1, 4} {
			f := newC11Fix(scheme, capacity)
			// requests: everything that verifies (signing changes the ground truth, not needed here)
			var idx []int
			for i, o := range f.ops {
				if o.sign == nil && (r.Quick() == false || strings.HasPrefix(o.name, "verify(") || strings.HasPrefix(o.name, "batchVerify(")) {
					idx = append(idx, i)
				}
			}
			// reference verdicts from the uncached authority
			ref := map[int]string{}
			for _, i := range idx {
				o := f.ops[i]
				var e error
				if p := safely(func() { e = o.run(f.plain.Auths[f.v], nil) }); p != nil {
					ref[i] = "panic"
				} else {
					ref[i] = verdict(e)
				}
			}
			var execs, steps int64
			pairs := 0
			outcomes := map[string]bool{}
			for _, a := range idx {
				for _, b := range idx {
					if ref[a] == "panic" || ref[b] == "panic" {
						continue
					}
					// quick: pairs in which at least one request is rejected by the reference
					if r.Quick() && ref[a] == "VALID" && ref[b] == "VALID" {
						continue
					}
					a, b := a, b
					pairs++
					run := func(s *mcrt.Sched) (string, string) {
						var va, vb string
						s.Run(func() {
							ca := cert.NewAuthority(f.cached.Cfgs[f.v], f.cached.Chains[f.v], f.cached.Recs[f.v])
							mcrt.GoNamed("A", func() {
								var e error
								if p := safely(func() { e = f.ops[a].run(ca, nil) }); p != nil {
									va = "panic"
								} else {
									va = verdict(e)
								}
							})
							mcrt.GoNamed("B", func() {
								var e error
								if p := safely(func() { e = f.ops[b].run(ca, nil) }); p != nil {
									vb = "panic"
								} else {
									vb = verdict(e)
								}
							})
							mcrt.JoinAll()
						})
						if s.Broken != "" {
							return "", "harness: " + s.Broken
						}
						if s.Deadlock {
							return "", "deadlock: " + strings.Join(s.Trace(), " ")
						}
						fail := ""
						if va != ref[a] {
							fail = fmt.Sprintf("request A %s: cached verdict %s, uncached verdict %s", f.ops[a].name, va, ref[a])
						} else if vb != ref[b] {
							fail = fmt.Sprintf("request B %s: cached verdict %s, uncached verdict %s", f.ops[b].name, vb, ref[b])
						}
						return va + "/" + vb, fail
					}
					res := mcrt.Explore(bound, 0, run, func(fl mcrt.Failure) {
						r.Violation(fmt.Sprintf("C11 %s concurrent: %s", scheme, classify(fl.Msg)),
							fmt.Sprintf("%s capacity=%d, concurrent requests A=%s and B=%s, schedule [%s]: %s", scheme, capacity, f.ops[a].name, f.ops[b].name, strings.Join(fl.Trace, " "), fl.Msg),
							map[string]any{"scheme": scheme, "capacity": capacity, "A": f.ops[a].name, "B": f.ops[b].name, "choices": fl.Choices, "trace": fl.Trace})
					}, func() bool { return r.Violations() > 5 })
					if res.Broken != "" {
						ev.Broken("C11 scheduler: %s", res.Broken)
					}
					execs += res.Executions
					steps += res.Steps
					for o := range res.Outcomes {
						outcomes[o] = true
					}
					if r.Violations() > 5 {
						break
					}
				}
			}
			r.Count(execs, steps, execs, int64(len(outcomes)))
			out = append(out, fmt.Sprintf("concurrent %s capacity=%d: request_pairs=%d schedules=%d steps=%d preemption_bound=%d distinct_outcomes=%d", scheme, capacity, pairs, execs, steps, bound, len(outcomes)))
			fmt.Println(out[len(out)-1])
		}
	}
	return out
}
