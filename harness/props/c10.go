package props

import (
	"context"
	"fmt"
	"math"
	"strings"
	"time"

	"github.com/relab/hotstuff"
	"github.com/relab/hotstuff/core"
	"github.com/relab/hotstuff/core/eventloop"
	"github.com/relab/hotstuff/internal/proto/clientpb"
	"github.com/relab/hotstuff/internal/proto/hotstuffpb"
	"github.com/relab/hotstuff/internal/proto/kauripb"
	"github.com/relab/hotstuff/internal/tree"
	"github.com/relab/hotstuff/protocol/comm"
	kauripkg "github.com/relab/hotstuff/protocol/comm/kauri"
	"github.com/relab/hotstuff/protocol/rules"
	"github.com/relab/hotstuff/security/blockchain"
	"github.com/relab/hotstuff/security/cert"
	"github.com/relab/hotstuff/security/crypto"
	"github.com/relab/hotstuff/server"
	"github.com/relab/hotstuff/zverif/dump"
	"github.com/relab/hotstuff/zverif/ev"
	"github.com/relab/hotstuff/zverif/fix"
	"github.com/relab/hotstuff/zverif/node"
	"github.com/relab/hotstuff/zverif/par"
	"google.golang.org/grpc/metadata"
	"google.golang.org/grpc/peer"
	"google.golang.org/protobuf/proto"
	"google.golang.org/protobuf/types/known/timestamppb"
)

func init() { Registry["C10"] = c10 }

type c10Env struct {
	scheme   string
	cache    uint
	advanced bool
	rules    string
	c        *fix.Cluster
	bK       *hotstuff.Block // block known to the target
	qcK      hotstuff.QuorumCert
	bU       *hotstuff.Block // block unknown to the target
	curView  hotstuff.View
}

type c10Target struct {
	n   *node.Node
	svc *server.VerifService
	snd *fix.Sender
}

func newC10Env(scheme string, cache uint, advanced bool, ruleset string) *c10Env {
	e := &c10Env{scheme: scheme, cache: cache, advanced: advanced, rules: ruleset}
	e.c = fix.NewCluster(4, scheme, fix.Opts{AggQC: ruleset == rules.NameFastHotStuff})
	e.bK = hotstuff.NewBlock(hotstuff.GetGenesis().Hash(), fix.GenesisQC(), fix.Batch(fix.Cmd(1, 1)), 1, 2)
	e.c.StoreAll(e.bK)
	e.qcK = e.c.QC(e.bK, 1, 2, 3)
	e.bU = hotstuff.NewBlock(hotstuff.GetGenesis().Hash(), fix.GenesisQC(), fix.Batch(fix.Cmd(1, 9)), 3, 3)
	e.curView = 1
	if advanced {
		e.curView = 4
	}
	return e
}

func (e *c10Env) newTarget() *c10Target {
	snd := &fix.Sender{ID: 1}
	n := node.New(node.Opts{ID: 1, N: 4, Scheme: e.scheme, Rules: e.rules, Leader: node.LeaderFunc(func(hotstuff.View) hotstuff.ID { return 2 }), Cache: e.cache, Sender: snd, Truth: e.c.Truth})
	n.AddPeerConfigs(e.c.Cfgs)
	n.StockCommands(9, 1, 4)
	n.Chain.Store(e.bK)
	if e.advanced {
		// real certificates move the replica to view 4 with a non-genesis high QC
		n.Deliver(hotstuff.NewViewMsg{ID: 2, SyncInfo: hotstuff.NewSyncInfoWith(e.qcK)})
		for v := hotstuff.View(2); v < 4; v++ {
			tc := hotstuff.NewTimeoutCert(e.c.Combine(e.c.SignBytes(v.ToBytes(), 1, 2, 3)...), v)
			si := hotstuff.NewSyncInfoWith(tc)
			if e.rules == rules.NameFastHotStuff {
				// the aggregate rule advances on aggregate QCs only
				qcs := map[hotstuff.ID]hotstuff.QuorumCert{}
				var ss []hotstuff.QuorumSignature
				for _, i := range []int{1, 2, 3} {
					id := hotstuff.ID(i + 1)
					qcs[id] = e.qcK
					ss = append(ss, e.c.SignBytes(hotstuff.TimeoutMsg{ID: id, View: v, SyncInfo: hotstuff.NewSyncInfoWith(e.qcK)}.ToBytes(), i)...)
				}
				si.SetAggQC(hotstuff.NewAggregateQC(qcs, e.c.Combine(ss...), v))
			}
			n.Deliver(hotstuff.NewViewMsg{ID: 2, SyncInfo: si})
		}
	}
	srv := server.NewServer(n.Loop, n.Log, n.Cfg, n.Chain)
	snd.Sent = nil
	return &c10Target{n: n, svc: server.VerifNewService(srv), snd: snd}
}

var c10DumpOpts = &dump.Options{SkipFields: map[string]bool{
	"github.com/relab/hotstuff/protocol.ViewStates.blockchain":                true,
	"github.com/relab/hotstuff/protocol.ViewStates.auth":                      true,
	"github.com/relab/hotstuff/protocol/rules.ChainedHotStuff.logger":         true,
	"github.com/relab/hotstuff/protocol/rules.ChainedHotStuff.config":         true,
	"github.com/relab/hotstuff/protocol/rules.ChainedHotStuff.blockchain":     true,
	"github.com/relab/hotstuff/protocol/rules.SimpleHotStuff.logger":          true,
	"github.com/relab/hotstuff/protocol/rules.SimpleHotStuff.config":          true,
	"github.com/relab/hotstuff/protocol/rules.SimpleHotStuff.blockchain":      true,
	"github.com/relab/hotstuff/protocol/rules.FastHotStuff.logger":            true,
	"github.com/relab/hotstuff/protocol/rules.FastHotStuff.config":            true,
	"github.com/relab/hotstuff/protocol/rules.FastHotStuff.blockchain":        true,
}}

// digest is the replica's protocol state: view, highest QC / TC, lock, committed block, vote history.
// onWire passes a message through protobuf marshal/unmarshal: what arrives is what a peer can
// put on the wire (e.g. repeated fields never contain nil elements after decoding).
func onWire[T proto.Message](in T, out T) (T, bool) {
	b, err := proto.Marshal(in)
	if err != nil {
		return out, false
	}
	if err := proto.Unmarshal(b, out); err != nil {
		return out, false
	}
	return out, true
}

func (t *c10Target) digest() string {
	lv, _ := dump.Field(t.n.Voter, "lastVotedView")
	return dump.String(t.n.VS, c10DumpOpts) + "|" + dump.String(t.n.Rules, c10DumpOpts) + fmt.Sprintf("|lastVoted=%v", lv)
}

func peerCtx(id string) context.Context {
	ctx := peer.NewContext(context.Background(), &peer.Peer{})
	if id == "" {
		return ctx
	}
	return metadata.NewIncomingContext(ctx, metadata.Pairs("id", id))
}

// ---- grammar ----

type sigVar struct {
	name  string
	pb    *hotstuffpb.QuorumSignature
	valid bool // contains at least one genuinely valid signature over the intended bytes
}

func (e *c10Env) raw(i int, msg []byte) []byte { return e.c.SignBytes(msg, i)[0].ToBytes() }

// sigVars: signature variants for a message that should be signed over msg.
func (e *c10Env) sigVars(msg []byte, full bool) []sigVar {
	vs := []sigVar{{"absent", nil, false}, {"empty-oneof", &hotstuffpb.QuorumSignature{}, false}}
	mk := func(entries ...[2]any) *hotstuffpb.QuorumSignature { // (signer uint32, bytes)
		switch e.scheme {
		case crypto.NameECDSA:
			var s []*hotstuffpb.ECDSASignature
			for _, en := range entries {
				s = append(s, &hotstuffpb.ECDSASignature{Signer: en[0].(uint32), Sig: en[1].([]byte)})
			}
			return &hotstuffpb.QuorumSignature{Sig: &hotstuffpb.QuorumSignature_ECDSASigs{ECDSASigs: &hotstuffpb.ECDSAMultiSignature{Sigs: s}}}
		default:
			var s []*hotstuffpb.EDDSASignature
			for _, en := range entries {
				s = append(s, &hotstuffpb.EDDSASignature{Signer: en[0].(uint32), Sig: en[1].([]byte)})
			}
			return &hotstuffpb.QuorumSignature{Sig: &hotstuffpb.QuorumSignature_EDDSASigs{EDDSASigs: &hotstuffpb.EDDSAMultiSignature{Sigs: s}}}
		}
	}
	if e.scheme == crypto.NameBLS12 {
		one := e.c.SignBytes(msg, 1)[0]
		q := e.c.Combine(e.c.SignBytes(msg, 1, 2, 3)...)
		bf := func(ids ...hotstuff.ID) []byte {
			var b crypto.Bitfield
			for _, id := range ids {
				b.Add(id)
			}
			return b.Bytes()
		}
		bls := func(sig, parts []byte) *hotstuffpb.QuorumSignature {
			return &hotstuffpb.QuorumSignature{Sig: &hotstuffpb.QuorumSignature_BLS12Sig{BLS12Sig: &hotstuffpb.BLS12AggregateSignature{Sig: sig, Participants: parts}}}
		}
		inf := make([]byte, 96)
		inf[0] = 0xc0
		huge := make([]byte, 64)
		for i := range huge {
			huge[i] = 0xff
		}
		vs = append(vs,
			sigVar{"bls-nil-inner", &hotstuffpb.QuorumSignature{Sig: &hotstuffpb.QuorumSignature_BLS12Sig{}}, false},
			sigVar{"bls-garbage-point", bls([]byte{1, 2, 3}, bf(2)), false},
			sigVar{"bls-valid-sender", bls(one.ToBytes(), bf(2)), true},
			sigVar{"bls-valid-empty-bitfield", bls(one.ToBytes(), nil), false},
			sigVar{"bls-valid-oversized-bitfield", bls(one.ToBytes(), huge), false},
			sigVar{"bls-identity-point-empty-bitfield", bls(inf, nil), false},
			sigVar{"bls-identity-point", bls(inf, bf(2, 3, 4)), false},
			sigVar{"bls-quorum", bls(q.ToBytes(), bf(2, 3, 4)), true},
			sigVar{"bls-quorum-wrong-bitfield", bls(q.ToBytes(), bf(1, 2, 3)), false},
			sigVar{"wrong-scheme(eddsa)", &hotstuffpb.QuorumSignature{Sig: &hotstuffpb.QuorumSignature_EDDSASigs{EDDSASigs: &hotstuffpb.EDDSAMultiSignature{Sigs: []*hotstuffpb.EDDSASignature{{Signer: 2, Sig: make([]byte, 64)}}}}}, false},
		)
		return vs
	}
	s2, s3, s4 := e.raw(1, msg), e.raw(2, msg), e.raw(3, msg)
	other := e.raw(1, append([]byte("other"), msg...))
	vs = append(vs,
		sigVar{"empty-list", mk(), false},
		sigVar{"garbage", mk([2]any{uint32(2), []byte{1, 2, 3}}), false},
		sigVar{"empty-bytes", mk([2]any{uint32(2), []byte(nil)}), false},
		sigVar{"valid-by-sender", mk([2]any{uint32(2), s2}), true},
		sigVar{"valid-by-other", mk([2]any{uint32(3), s3}), true},
		sigVar{"over-other-message", mk([2]any{uint32(2), other}), false},
		sigVar{"labelled-as-other", mk([2]any{uint32(3), s2}), false},
		sigVar{"signer-0", mk([2]any{uint32(0), s2}), false},
		sigVar{"unknown-signer", mk([2]any{uint32(77), s2}), false},
		sigVar{"repeated-signer", mk([2]any{uint32(2), s2}, [2]any{uint32(2), s2}, [2]any{uint32(2), s2}), true},
		sigVar{"quorum", mk([2]any{uint32(2), s2}, [2]any{uint32(3), s3}, [2]any{uint32(4), s4}), true},
	)
	if full {
		nilInner := &hotstuffpb.QuorumSignature{Sig: &hotstuffpb.QuorumSignature_ECDSASigs{}}
		nilElem := &hotstuffpb.QuorumSignature{Sig: &hotstuffpb.QuorumSignature_ECDSASigs{ECDSASigs: &hotstuffpb.ECDSAMultiSignature{Sigs: []*hotstuffpb.ECDSASignature{nil}}}}
		wrong := &hotstuffpb.QuorumSignature{Sig: &hotstuffpb.QuorumSignature_BLS12Sig{BLS12Sig: &hotstuffpb.BLS12AggregateSignature{Sig: []byte{9}, Participants: []byte{1}}}}
		if e.scheme == crypto.NameEDDSA {
			nilInner = &hotstuffpb.QuorumSignature{Sig: &hotstuffpb.QuorumSignature_EDDSASigs{}}
			nilElem = &hotstuffpb.QuorumSignature{Sig: &hotstuffpb.QuorumSignature_EDDSASigs{EDDSASigs: &hotstuffpb.EDDSAMultiSignature{Sigs: []*hotstuffpb.EDDSASignature{nil}}}}
		}
		vs = append(vs, sigVar{"nil-inner", nilInner, false}, sigVar{"nil-element", nilElem, false}, sigVar{"wrong-scheme(bls)", wrong, false})
	}
	return vs
}

type hashVar struct {
	name string
	b    []byte
}

func (e *c10Env) hashVars() []hashVar {
	g, k, u := hotstuff.GetGenesis().Hash(), e.bK.Hash(), e.bU.Hash()
	return []hashVar{{"absent", nil}, {"zero", make([]byte, 32)}, {"genesis", g[:]}, {"known", k[:]}, {"unknown", u[:]}, {"short", k[:5]}, {"long", append(append([]byte{}, k[:]...), 1, 2, 3, 4, 5, 6, 7, 8)}}
}

func (e *c10Env) viewVars() []uint64 {
	cv := uint64(e.curView)
	return []uint64{0, cv - 1, cv, cv + 1, cv + 11, math.MaxUint64}
}

type qcVar struct {
	name  string
	pb    *hotstuffpb.QuorumCert
	valid bool
}

// qcVars: certificates naming the known block (signatures over its bytes) and other hashes.
func (e *c10Env) qcVars(full bool) []qcVar {
	out := []qcVar{{"absent", nil, false}}
	sv := e.sigVars(e.bK.ToBytes(), false)
	for _, h := range e.hashVars() {
		for _, s := range sv {
			for _, v := range []uint64{uint64(e.bK.View()), 0, math.MaxUint64} {
				if !full && (v != uint64(e.bK.View()) && s.name != "quorum" && s.name != "bls-quorum" && s.name != "absent") {
					continue
				}
				known := h.name == "known" || h.name == "long" // only the first 32 bytes of a hash field are used
				// (the signature-less certificate of the genesis block stands for view 0 only)
				valid := (h.name == "genesis" && v == 0) || (known && (s.name == "quorum" || s.name == "bls-quorum") && v == uint64(e.bK.View()))
				out = append(out, qcVar{fmt.Sprintf("QC{hash=%s sig=%s view=%d}", h.name, s.name, v), &hotstuffpb.QuorumCert{Sig: s.pb, Hash: h.b, View: v}, valid || (s.valid && known)})
			}
		}
	}
	return out
}

type tcVar struct {
	name  string
	pb    *hotstuffpb.TimeoutCert
	valid bool
}

func (e *c10Env) tcVars() []tcVar {
	out := []tcVar{{"absent", nil, false}}
	for _, v := range []uint64{0, uint64(e.curView), uint64(e.curView) + 3, math.MaxUint64} {
		for _, s := range e.sigVars(hotstuff.View(v).ToBytes(), false) {
			out = append(out, tcVar{fmt.Sprintf("TC{view=%d sig=%s}", v, s.name), &hotstuffpb.TimeoutCert{Sig: s.pb, View: v}, s.valid || v == 0})
		}
	}
	return out
}

type aggVar struct {
	name  string
	pb    *hotstuffpb.AggQC
	valid bool
}

func (e *c10Env) aggVars() []aggVar {
	out := []aggVar{{"absent", nil, false}}
	qk := hotstuffpb.QuorumCertToProto(e.qcK)
	gq := hotstuffpb.QuorumCertToProto(fix.GenesisQC())
	v := uint64(e.curView)
	msgFor := func(id hotstuff.ID, qc hotstuff.QuorumCert) []byte {
		return hotstuff.TimeoutMsg{ID: id, View: hotstuff.View(v), SyncInfo: hotstuff.NewSyncInfoWith(qc)}.ToBytes()
	}
	// a genuine aggregate signature of replicas 2,3,4 each attesting the known QC
	var ss []hotstuff.QuorumSignature
	for _, i := range []int{1, 2, 3} {
		ss = append(ss, e.c.SignBytes(msgFor(hotstuff.ID(i+1), e.qcK), i)...)
	}
	good := hotstuffpb.QuorumSignatureToProto(e.c.Combine(ss...))
	maps := []struct {
		name string
		m    map[uint32]*hotstuffpb.QuorumCert
	}{
		{"nil-map", nil}, {"empty-map", map[uint32]*hotstuffpb.QuorumCert{}}, {"id-0", map[uint32]*hotstuffpb.QuorumCert{0: qk}},
		{"unknown-id", map[uint32]*hotstuffpb.QuorumCert{77: qk, 2: gq}}, {"nil-qc-entry", map[uint32]*hotstuffpb.QuorumCert{2: nil, 3: qk, 4: qk}},
		{"good", map[uint32]*hotstuffpb.QuorumCert{2: qk, 3: qk, 4: qk}}, {"mixed", map[uint32]*hotstuffpb.QuorumCert{2: gq, 3: qk, 4: {Hash: []byte{1}, View: 9}}},
	}
	sv := e.sigVars(msgFor(2, e.qcK), false)
	for _, m := range maps {
		for _, s := range sv {
			out = append(out, aggVar{fmt.Sprintf("AggQC{%s sig=%s}", m.name, s.name), &hotstuffpb.AggQC{QCs: m.m, Sig: s.pb, View: v}, s.valid})
		}
		out = append(out, aggVar{fmt.Sprintf("AggQC{%s sig=genuine}", m.name), &hotstuffpb.AggQC{QCs: m.m, Sig: good, View: v}, true})
		out = append(out, aggVar{fmt.Sprintf("AggQC{%s sig=genuine view=max}", m.name), &hotstuffpb.AggQC{QCs: m.m, Sig: good, View: math.MaxUint64}, true})
	}
	// a genuine aggregate of replicas 2,3,4 each attesting the (signature-less) genesis QC
	var sg []hotstuff.QuorumSignature
	for _, i := range []int{1, 2, 3} {
		sg = append(sg, e.c.SignBytes(msgFor(hotstuff.ID(i+1), fix.GenesisQC()), i)...)
	}
	out = append(out, aggVar{"AggQC{all-genesis sig=genuine}", &hotstuffpb.AggQC{QCs: map[uint32]*hotstuffpb.QuorumCert{2: gq, 3: gq, 4: gq}, Sig: hotstuffpb.QuorumSignatureToProto(e.c.Combine(sg...)), View: v}, true})
	return out
}

type c10Msg struct {
	kind  string // propose vote newview timeout fetch
	name  string
	send  func(t *c10Target, ctx context.Context)
	inert bool // nothing in it verifies
}

func (e *c10Env) messages(quick bool) []c10Msg {
	var ms []c10Msg
	qcs := e.qcVars(!quick)
	tcs := e.tcVars()
	aggs := e.aggVars()
	// proposals
	batches := []*clientpb.Batch{nil, {}, fix.Batch(fix.Cmd(5, 1))}
	ms = append(ms, c10Msg{"propose", "Proposal{nil}", func(t *c10Target, ctx context.Context) { t.svc.Propose(ctx, &hotstuffpb.Proposal{}) }, true})
	ms = append(ms, c10Msg{"propose", "Proposal{Block:nil,AggQC:empty}", func(t *c10Target, ctx context.Context) { t.svc.Propose(ctx, &hotstuffpb.Proposal{}) }, true})
	for qi, qc := range qcs {
		for hi, parent := range e.hashVars() {
			for vi, v := range e.viewVars() {
				// thin the product: every QC variant meets every view, parents and the rest rotate
				if quick && (qi+hi+vi)%3 != 0 {
					continue
				}
				ts := timestamppb.New(time.Unix(1700000000, 5))
				if (qi+vi)%4 == 0 {
					ts = nil
				}
				batch := batches[(qi+hi+vi)%3]
				agg := aggs[(qi*7+hi*3+vi)%len(aggs)]
				pb := &hotstuffpb.Proposal{Block: &hotstuffpb.Block{Parent: parent.b, QC: qc.pb, View: v, Commands: batch, Proposer: 2, Timestamp: ts}, AggQC: agg.pb}
				ms = append(ms, c10Msg{"propose", fmt.Sprintf("Proposal{parent=%s %s view=%d ts=%v batch#%d %s}", parent.name, qc.name, v, ts != nil, (qi+hi+vi)%3, agg.name),
					func(t *c10Target, ctx context.Context) {
				if w, ok := onWire(pb, &hotstuffpb.Proposal{}); ok {
					t.svc.Propose(ctx, w)
				}
			}, !qc.valid && !agg.valid})
			}
		}
	}
	// proposals carrying a fully or partly genuine aggregate QC, with every block-QC variant (the block QC
	// is compared with the aggregate's high QC before either is known to be well-formed)
	if e.c.Cfgs[0].HasAggregateQC() {
		for _, agg := range aggs {
			if !agg.valid || !strings.Contains(agg.name, "sig=genuine}") {
				continue
			}
			for qi, qc := range qcs {
				for vi, v := range []uint64{uint64(e.curView), uint64(e.curView) + 1} {
					if quick && (qi+vi)%2 != 0 && !strings.Contains(qc.name, "hash=known") && !strings.Contains(qc.name, "hash=genesis") {
						continue
					}
					k := e.bK.Hash()
					pb := &hotstuffpb.Proposal{Block: &hotstuffpb.Block{Parent: k[:], QC: qc.pb, View: v, Commands: batches[2], Proposer: 2, Timestamp: timestamppb.New(time.Unix(1700000000, 5))}, AggQC: agg.pb}
					ms = append(ms, c10Msg{"propose", fmt.Sprintf("Proposal{parent=known %s view=%d %s}", qc.name, v, agg.name),
						func(t *c10Target, ctx context.Context) {
							if w, ok := onWire(pb, &hotstuffpb.Proposal{}); ok {
								t.svc.Propose(ctx, w)
							}
						}, false})
				}
			}
		}
	}
	// votes
	ms = append(ms, c10Msg{"vote", "PartialCert{nil}", func(t *c10Target, ctx context.Context) { t.svc.Vote(ctx, &hotstuffpb.PartialCert{}) }, true})
	for _, h := range e.hashVars() {
		for _, s := range e.sigVars(e.bK.ToBytes(), true) {
			pb := &hotstuffpb.PartialCert{Sig: s.pb, Hash: h.b}
			ms = append(ms, c10Msg{"vote", fmt.Sprintf("Vote{hash=%s sig=%s}", h.name, s.name), func(t *c10Target, ctx context.Context) {
				if w, ok := onWire(pb, &hotstuffpb.PartialCert{}); ok {
					t.svc.Vote(ctx, w)
				}
			}, !(s.valid && (h.name == "known" || h.name == "long"))})
		}
	}
	// new-view
	ms = append(ms, c10Msg{"newview", "SyncInfo{nil}", func(t *c10Target, ctx context.Context) { t.svc.NewView(ctx, &hotstuffpb.SyncInfo{}) }, true})
	for qi, qc := range qcs {
		for ti, tc := range tcs {
			if (qi+ti)%5 != 0 && !(qc.pb == nil || tc.pb == nil) {
				continue
			}
			agg := aggs[(qi*3+ti)%len(aggs)]
			pb := &hotstuffpb.SyncInfo{QC: qc.pb, TC: tc.pb, AggQC: agg.pb}
			ms = append(ms, c10Msg{"newview", fmt.Sprintf("NewView{%s %s %s}", qc.name, tc.name, agg.name), func(t *c10Target, ctx context.Context) {
				if w, ok := onWire(pb, &hotstuffpb.SyncInfo{}); ok {
					t.svc.NewView(ctx, w)
				}
			}, !qc.valid && !tc.valid && !agg.valid})
		}
	}
	for _, agg := range aggs {
		pb := &hotstuffpb.SyncInfo{AggQC: agg.pb}
		ms = append(ms, c10Msg{"newview", fmt.Sprintf("NewView{%s}", agg.name), func(t *c10Target, ctx context.Context) {
				if w, ok := onWire(pb, &hotstuffpb.SyncInfo{}); ok {
					t.svc.NewView(ctx, w)
				}
			}, !agg.valid})
	}
	// timeouts
	ms = append(ms, c10Msg{"timeout", "TimeoutMsg{nil}", func(t *c10Target, ctx context.Context) { t.svc.Timeout(ctx, &hotstuffpb.TimeoutMsg{}) }, true})
	for vi, v := range e.viewVars() {
		for si, vs := range e.sigVars(hotstuff.View(v).ToBytes(), true) {
			for mi, msig := range e.sigVars([]byte("timeout-msg"), false) {
				if (vi+si+mi)%3 != 0 && msig.pb != nil {
					continue
				}
				qc := qcs[(vi*5+si*3+mi)%len(qcs)]
				tc := tcs[(vi+si*2+mi*3)%len(tcs)]
				var sync *hotstuffpb.SyncInfo
				if (vi+si+mi)%7 != 0 {
					sync = &hotstuffpb.SyncInfo{QC: qc.pb, TC: tc.pb}
				}
				pb := &hotstuffpb.TimeoutMsg{View: v, ViewSig: vs.pb, MsgSig: msig.pb, SyncInfo: sync}
				inert := !vs.valid && (sync == nil || (!qc.valid && !tc.valid))
				// a view signature that does not verify makes the handler drop the message before its sync info is used
				if !vs.valid {
					inert = true
				}
				ms = append(ms, c10Msg{"timeout", fmt.Sprintf("Timeout{view=%d viewsig=%s msgsig=%s sync=%v %s %s}", v, vs.name, msig.name, sync != nil, qc.name, tc.name),
					func(t *c10Target, ctx context.Context) {
				if w, ok := onWire(pb, &hotstuffpb.TimeoutMsg{}); ok {
					t.svc.Timeout(ctx, w)
				}
			}, inert})
			}
		}
	}
	// block fetch
	ms = append(ms, c10Msg{"fetch", "BlockHash{nil}", func(t *c10Target, ctx context.Context) { _, _ = t.svc.RequestBlock(ctx, &hotstuffpb.BlockHash{}) }, true})
	for _, h := range e.hashVars() {
		pb := &hotstuffpb.BlockHash{Hash: h.b}
		ms = append(ms, c10Msg{"fetch", "BlockHash{" + h.name + "}", func(t *c10Target, ctx context.Context) { _, _ = t.svc.RequestBlock(ctx, pb) }, true})
	}
	return ms
}

func c10(r *ev.Reporter, _ []string) {
	r.Rule = "field grammar of the Consensus and Kauri wire messages (every optional field absent/present, hashes {absent, zero, genesis, known, unknown, short, long}, views {0, cur-1, cur, cur+1, cur+11, 2^64-1}, ~14 signature variants per scheme incl. nil inner messages, repeated signers, BLS identity point and bitfield abuse, AggQC maps {nil, empty, id 0, unknown id, nil entry, mixed}) delivered through the real service handlers and the event loop of a running replica (fresh / advanced by real certificates), from peers {leader, other, unknown id, no id}; oracle = no panic, and protocol state unchanged when nothing in the message verifies; distinct = messages x config"
	type cfg struct {
		scheme   string
		cache    uint
		advanced bool
		rules    string
	}
	var cfgs []cfg
	for _, sch := range []string{crypto.NameEDDSA, crypto.NameECDSA, crypto.NameBLS12} {
		for _, ca := range []uint{0, 10} {
			for _, adv := range []bool{false, true} {
				rs := rules.NameChainedHotStuff
				if adv && ca == 10 {
					rs = rules.NameFastHotStuff
				}
				if !adv && ca == 10 {
					rs = rules.NameSimpleHotStuff
				}
				cfgs = append(cfgs, cfg{sch, ca, adv, rs})
			}
		}
	}
	var perType = map[string]int64{}
	var mu = make(chan struct{}, 1)
	par.Each(len(cfgs), func(i int) {
		c := cfgs[i]
		e := newC10Env(c.scheme, c.cache, c.advanced, c.rules)
		tag := fmt.Sprintf("%s cache=%d advanced=%v %s", c.scheme, c.cache, c.advanced, c.rules)
		msgs := e.messages(false)
		peers := []string{"2", "3", "77", ""}
		t := e.newTarget()
		base := t.digest()
		var cnt, nt int64
		local := map[string]int64{}
		rounds := 1
		if !r.Quick() {
			rounds = len(peers) // thorough: every message from every kind of peer
		}
		for mi0 := 0; mi0 < len(msgs)*rounds; mi0++ {
			mi, m := mi0%len(msgs), msgs[mi0%len(msgs)]
			pid := peers[(mi+mi0/len(msgs))%len(peers)]
			if rounds == 1 && m.kind == "propose" && mi%2 == 0 {
				pid = "2" // proposals mostly from the leader, otherwise the leader check hides the rest
			}
			ctx := peerCtx(pid)
			pan, site := safelySite(func() {
				m.send(t, ctx)
				t.n.Drain()
			})
			cnt++
			local[m.kind]++
			if !m.inert {
				nt++
			}
			if pan != nil {
				r.Violation(fmt.Sprintf("C10 panic in %s (%s)", site, panicSite(pan)), fmt.Sprintf("%s, peer id %q, message %s: panic: %v", tag, pid, m.name, pan), map[string]any{"config": tag, "peer": pid, "message": m.name, "panic": fmt.Sprint(pan)})
				t = e.newTarget()
				base = t.digest()
				continue
			}
			d := t.digest()
			if d != base {
				if m.inert {
					r.Violation(fmt.Sprintf("C10 state changed by unverifiable %s", m.kind), fmt.Sprintf("%s, peer id %q, message %s: nothing in the message verifies, but the protocol state changed\n before: %s\n after:  %s", tag, pid, m.name, short(base), short(d)),
						map[string]any{"config": tag, "peer": pid, "message": m.name})
				}
				t = e.newTarget()
				base = t.digest()
			}
		}
		cnt += c10Kauri(r, e, tag)
		r.Count(cnt, cnt, cnt, nt)
		mu <- struct{}{}
		for k, v := range local {
			perType[k] += v
		}
		<-mu
	})
	r.Extra["messages_per_type"] = perType
	r.Extra["configs"] = len(cfgs)
	r.Traces = r.Evaluations
	r.Sample("eddsa cache=0 fresh: Proposal{Block:nil} from peer 2")
	r.Sample("bls12 cache=10 advanced: NewView{QC absent, TC{view=4 sig=bls-identity-point}, AggQC{nil-entry sig=genuine}}")
	r.Sample("ecdsa: Vote{hash=known sig=nil-element} from peer 3")
	r.Assume("messages enter at the gorums service implementation (after protobuf decoding), not at a socket; the peer identity comes from connection metadata")
	r.Explanation = "Every message is handed to the real serviceImpl / kauriServiceImpl handler and then processed by the replica's real event loop until quiescent, under recover."
}

func short(s string) string {
	if len(s) > 400 {
		return s[:400] + "..."
	}
	return s
}

// panicSite extracts a stable description of where a panic happened.
func panicSite(p any) string {
	s := fmt.Sprint(p)
	s = strings.TrimSpace(s)
	if len(s) > 60 {
		s = s[:60]
	}
	return classify(s)
}

// c10Kauri delivers tree contributions to an interior Kauri node.
func c10Kauri(r *ev.Reporter, e *c10Env, tag string) int64 {
	lg := &fix.NopLogger{}
	el := eventloop.New(lg, 1000)
	snd := &fix.Sender{ID: 1}
	tr := tree.NewSimple(1, 2, []hotstuff.ID{1, 2, 3, 4})
	tr.SetTreeHeightWaitTime(1000 * time.Hour) // the aggregation timer never fires during the check
	opts := []core.RuntimeOption{core.WithSyncVerification(), core.WithKauriTree(tr)}
	if e.cache > 0 {
		opts = append(opts, core.WithCache(e.cache))
	}
	cfg := core.NewRuntimeConfig(1, fix.Key(e.scheme, 1), opts...)
	base, err := crypto.New(cfg, e.scheme)
	if err != nil {
		panic(err)
	}
	for _, c := range e.c.Cfgs {
		md := map[string]string{}
		for k, v := range c.ConnectionMetadata() {
			md[k] = v
		}
		cfg.AddReplica(&hotstuff.ReplicaInfo{ID: c.ID(), PubKey: c.PrivateKey().Public(), Metadata: md})
	}
	chain := blockchain.New(el, lg, snd)
	chain.Store(e.bK)
	auth := cert.NewAuthority(cfg, chain, base)
	k := comm.NewKauri(lg, el, cfg, chain, auth, snd)
	el.AddEvent(hotstuff.ReplicaConnectedEvent{Ctx: context.Background()})
	for el.Tick(context.Background()) {
	}
	pc, err := auth.CreatePartialCert(e.bK)
	if err != nil {
		panic(err)
	}
	if err := k.Disseminate(&hotstuff.ProposeMsg{ID: 1, Block: e.bK}, pc); err != nil {
		panic(err)
	}
	var cnt int64
	for _, v := range []uint64{0, uint64(e.bK.View()), math.MaxUint64} {
		for _, id := range []uint32{0, 2, 3, 77} {
			for _, s := range e.sigVars(e.bK.ToBytes(), true) {
				c := &kauripb.Contribution{ID: id, Signature: s.pb, View: v}
				c, ok := onWire(c, &kauripb.Contribution{})
				if !ok {
					continue
				}
				if p, site := safelySite(func() {
					kauripkg.VerifSendContribution(el, peerCtx("2"), c)
					for el.Tick(context.Background()) {
					}
				}); p != nil {
					r.Violation(fmt.Sprintf("C10 panic in %s (%s)", site, panicSite(p)), fmt.Sprintf("%s, contribution{id=%d view=%d sig=%s}: panic: %v", tag, id, v, s.name, p), map[string]any{"config": tag, "message": s.name})
				}
				cnt++
			}
		}
	}
	if p, site := safelySite(func() {
		kauripkg.VerifSendContribution(el, peerCtx("2"), &kauripb.Contribution{})
		for el.Tick(context.Background()) {
		}
	}); p != nil {
		r.Violation(fmt.Sprintf("C10 panic in %s (%s)", site, panicSite(p)), fmt.Sprintf("%s, nil contribution: panic: %v", tag, p), map[string]any{"config": tag})
	}
	return cnt + 1
}
