// Package props holds one exhaustive check per property; see /verif/DESIGN.md §4.
package props

import "github.com/relab/hotstuff/zverif/ev"

// Registry maps property ids to their checks.
var Registry = map[string]func(r *ev.Reporter, args []string){}
