package props

import (
	"context"
	"fmt"
	"strings"

	"github.com/relab/hotstuff/internal/proto/clientpb"
	"github.com/relab/hotstuff/zverif/dump"
	"github.com/relab/hotstuff/zverif/ev"
	"github.com/relab/hotstuff/zverif/fix"
	"github.com/relab/hotstuff/zverif/mcrt"
)

func init() { Registry["C15"] = c15 }

type cmdID struct {
	c uint32
	s uint64
}

// c15Model is the reference: accepted commands in arrival order + per-client proposed mark.
type c15Model struct {
	cache []cmdID
	mark  map[uint32]uint64
	size  int
}

func (m *c15Model) add(c cmdID) {
	if m.mark[c.c] >= c.s {
		return
	}
	m.cache = append(m.cache, c)
}
func (m *c15Model) proposed(c cmdID) {
	if c.s > m.mark[c.c] {
		m.mark[c.c] = c.s
	}
}

// ready returns the batch a Get must return now, or nil if it must block.
func (m *c15Model) ready() []cmdID {
	var batch []cmdID
	used := 0
	for i, c := range m.cache {
		if m.mark[c.c] >= c.s {
			continue
		}
		batch = append(batch, c)
		if len(batch) == m.size {
			used = i + 1
			break
		}
	}
	if len(batch) < m.size {
		return nil
	}
	m.cache = m.cache[used:]
	return batch
}

func batchIDs(b *clientpb.Batch) []cmdID {
	var out []cmdID
	for _, c := range b.GetCommands() {
		out = append(out, cmdID{c.ClientID, c.SequenceNumber})
	}
	return out
}

// ---- (a) operation sequences, executed under the cooperative scheduler ----

type c15Op struct {
	name string
	kind int // 0 add, 1 proposed, 2 get
	cmd  cmdID
}

func c15Alphabet() []c15Op {
	var ops []c15Op
	for c := uint32(1); c <= 2; c++ {
		for s := uint64(1); s <= 3; s++ {
			ops = append(ops, c15Op{fmt.Sprintf("add(%d.%d)", c, s), 0, cmdID{c, s}})
		}
	}
	for c := uint32(1); c <= 2; c++ {
		for s := uint64(1); s <= 2; s++ {
			ops = append(ops, c15Op{fmt.Sprintf("proposed(%d.%d)", c, s), 1, cmdID{c, s}})
		}
	}
	ops = append(ops, c15Op{"get", 2, cmdID{}})
	return ops
}

// c15RunSeq runs one sequence: at most one Get is outstanding; a blocked Get must return as
// soon as the model has a full batch and must return exactly that batch.
func c15RunSeq(ops []c15Op, size int) (string, string) {
	var fail string
	outcome := ""
	s := &mcrt.Sched{}
	s.Run(func() {
		cc := clientpb.NewCommandCache(uint32(size))
		m := &c15Model{mark: map[uint32]uint64{}, size: size}
		ctx, cancel := context.WithCancel(context.Background())
		defer cancel()
		pending := false           // a getter thread is blocked in Get
		var got *clientpb.Batch    // result of the outstanding getter
		var gotErr error
		returned := false
		getters := 0
		expectReturn := func(where string) {
			// the model says a batch is available for the outstanding Get: let the getter run
			want := m.ready()
			if want == nil {
				return
			}
			mcrt.Join(fmt.Sprintf("getter%d", getters))
			if !returned {
				fail = fmt.Sprintf("%s: Get is still blocked although %d fresh commands are present", where, size)
				return
			}
			if gotErr != nil || fmt.Sprint(batchIDs(got)) != fmt.Sprint(want) {
				fail = fmt.Sprintf("%s: blocked Get returned %v (err %v), reference batch is %v", where, batchIDs(got), gotErr, want)
			}
			outcome += fmt.Sprint(want)
			pending = false
		}
		for i, o := range ops {
			if fail != "" {
				return
			}
			where := fmt.Sprintf("op %d %s", i+1, o.name)
			switch o.kind {
			case 0:
				cc.Add(fix.Cmd(o.cmd.c, o.cmd.s))
				m.add(o.cmd)
			case 1:
				cc.Proposed(fix.Batch(fix.Cmd(o.cmd.c, o.cmd.s)))
				m.proposed(o.cmd)
			case 2:
				if pending {
					continue // one outstanding request at a time in the sequential part
				}
				getters++
				returned = false
				name := fmt.Sprintf("getter%d", getters)
				mcrt.GoNamed(name, func() {
					got, gotErr = cc.Get(ctx)
					returned = true
				})
				pending = true
				// let the request run until it returns or really blocks inside Get
				mcrt.Settle()
			}
			if pending {
				if o.kind != 2 {
					mcrt.Settle() // a blocked Get reacts to the operation before the next one is issued
				}
				expectReturn(where)
			}
		}
		if pending && fail == "" {
			// the model has no full batch: Get must still be blocked, and end only on cancellation
			mcrt.Yield()
			if returned {
				fail = fmt.Sprintf("Get returned %v (err %v) although fewer than %d fresh commands are present", batchIDs(got), gotErr, size)
				return
			}
			cancel()
			mcrt.Join(fmt.Sprintf("getter%d", getters))
			if !returned || gotErr == nil {
				fail = "a blocked Get did not end with an error when its context was cancelled"
			}
			outcome += "|cancelled"
		}
	})
	if s.Broken != "" {
		return outcome, "harness: " + s.Broken
	}
	if s.Deadlock && fail == "" {
		fail = "deadlock: " + strings.Join(s.Trace(), " ")
	}
	return outcome, fail
}

func c15(r *ev.Reporter, _ []string) {
	r.Rule = "(a) every sequence up to depth D over {add(c,s) for 2 clients x 3 sequence numbers, proposed(c,s), get} for batch sizes 1..3, executed on the real CommandCache under the cooperative scheduler (a blocked Get is a visible state) against a list+mark reference; (b) concurrent adders / marker / getters / canceller: every schedule with <= P preemptions; oracle: full batches of distinct accepted commands in per-client order, nothing handed out twice, nothing lost, no lost wake-up (deadlock with a full batch present); distinct = sequences / schedules"
	depth := 5
	if !r.Quick() {
		depth = 6
	}
	alpha := c15Alphabet()
	outcomes := map[string]bool{}
	for size := 1; size <= 3; size++ {
		seq := make([]c15Op, 0, depth)
		var rec func()
		rec = func() {
			if len(seq) > 0 {
				out, fail := c15RunSeq(seq, size)
				outcomes[out] = true
				r.Count(1, int64(len(seq)), 1, 1)
				if fail != "" {
					names := make([]string, len(seq))
					for i, o := range seq {
						names[i] = o.name
					}
					if strings.HasPrefix(fail, "harness:") {
						ev.Broken("C15: %s on %v", fail, names)
					}
					r.Violation("C15 sequential: "+classify(fail), fmt.Sprintf("batch size %d, ops [%s]: %s", size, strings.Join(names, "; "), fail), map[string]any{"batch": size, "ops": names})
				}
			}
			if len(seq) == depth || r.Violations() > 5 {
				return
			}
			for _, o := range alpha {
				seq = append(seq, o)
				rec()
				seq = seq[:len(seq)-1]
			}
		}
		rec()
	}
	r.Extra["sequential_depth"] = depth
	r.Extra["sequential_distinct_outcomes"] = len(outcomes)
	c15Concurrent(r)
	r.Traces = r.Evaluations
	r.Sample("batch 2: add(1.1); get [blocks]; proposed(1.1); add(2.1); add(1.2) -> Get returns [2.1 1.2]")
	r.Explanation = "The real CommandCache is compiled with sync/select routed through the controlled runtime; every execution is a complete run of the real code under one explicit schedule."
}

// ---- (b) concurrent scenarios ----

type c15Scenario struct {
	name    string
	size    int
	adders  [][]cmdID
	marks   []cmdID
	getters []int // number of Get calls per getter thread
	cancel  bool  // a canceller thread cancels the getters' context
	// cancelFirst: the canceller only cancels the context of the first getter; the other getters hold a
	// context that is never cancelled (a request given up at a view change, followed by the next one)
	cancelFirst bool
}

func c15Concurrent(r *ev.Reporter) {
	bound := 2
	if !r.Quick() {
		bound = 3
	}
	scen := []c15Scenario{
		{"2 adders x 2 cmds, 1 getter x 2 gets, batch 2", 2, [][]cmdID{{{1, 1}, {1, 2}}, {{2, 1}, {2, 2}}}, nil, []int{2}, false, false},
		{"2 adders x 1 cmd, 2 getters, batch 1", 1, [][]cmdID{{{1, 1}}, {{2, 1}}}, nil, []int{1, 1}, false, false},
		{"1 adder x 2 cmds + marker(1.1), 1 getter, batch 1, canceller", 1, [][]cmdID{{{1, 1}, {1, 2}}}, []cmdID{{1, 1}}, []int{2}, true, false},
		{"1 adder x 1 cmd, 1 getter, batch 2, canceller", 2, [][]cmdID{{{1, 1}}}, nil, []int{1}, true, false},
		{"2 adders x 2 cmds, 2 getters x 1 get, batch 2", 2, [][]cmdID{{{1, 1}, {1, 2}}, {{2, 1}, {2, 2}}}, nil, []int{1, 1}, false, false},
		{"adders (1.1,1.2 | 2.1) + marker(1.1), 1 getter, batch 2", 2, [][]cmdID{{{1, 1}, {1, 2}}, {{2, 1}}}, []cmdID{{1, 1}}, []int{1}, false, false},
		{"1 adder x 1 cmd, getter A (cancelled) + getter B (never cancelled), batch 1", 1, [][]cmdID{{{1, 1}}}, nil, []int{1, 1}, true, true},
		{"2 adders x 1 cmd, getter A (cancelled) + getter B (never cancelled), batch 2", 2, [][]cmdID{{{1, 1}}, {{2, 1}}}, nil, []int{1, 1}, true, true},
		{"1 adder x 2 cmds, getter A x 2 gets (cancelled) + getter B (never cancelled), batch 1", 1, [][]cmdID{{{1, 1}, {1, 2}}}, nil, []int{2, 1}, true, true},
	}
	var summary []string
	for _, sc := range scen {
		sc := sc
		res := mcrt.Explore(bound, 0, func(s *mcrt.Sched) (string, string) { return c15RunScenario(s, sc) },
			func(f mcrt.Failure) {
				r.Violation("C15 concurrent: "+classify(f.Msg), fmt.Sprintf("scenario %q, schedule [%s]: %s", sc.name, strings.Join(f.Trace, " "), f.Msg), map[string]any{"scenario": sc.name, "choices": f.Choices, "trace": f.Trace})
			}, func() bool { return r.Violations() > 5 || r.Expired() })
		if res.Broken != "" {
			ev.Broken("C15 scheduler: %s", res.Broken)
		}
		r.Count(res.Executions, res.Steps, res.Executions, int64(len(res.Outcomes)))
		summary = append(summary, fmt.Sprintf("%s: executions=%d steps=%d completed_preemption_bound=%d distinct_outcomes=%d deadlocks_reported=%d", sc.name, res.Executions, res.Steps, res.Completed, len(res.Outcomes), res.Deadlocks))
		if res.Completed < bound {
			r.Cap("scenario " + sc.name + " stopped before the preemption bound was complete")
		}
	}
	r.Extra["concurrent_scenarios"] = summary
	r.Extra["preemption_bound"] = bound
}

func c15RunScenario(s *mcrt.Sched, sc c15Scenario) (string, string) {
	var fail string
	var cc *clientpb.CommandCache
	type getRes struct {
		b   *clientpb.Batch
		err error
	}
	results := make([][]getRes, len(sc.getters))
	finished := make([]bool, len(sc.getters))
	marked := false
	s.Run(func() {
		cc = clientpb.NewCommandCache(uint32(sc.size))
		ctx, cancel := context.WithCancel(context.Background())
		_ = cancel // only the canceller thread cancels; main returns while the others still run
		for i, cmds := range sc.adders {
			cmds := cmds
			mcrt.GoNamed(fmt.Sprintf("adder%d", i+1), func() {
				for _, c := range cmds {
					cc.Add(fix.Cmd(c.c, c.s))
				}
			})
		}
		if len(sc.marks) > 0 {
			mcrt.GoNamed("marker", func() {
				for _, c := range sc.marks {
					cc.Proposed(fix.Batch(fix.Cmd(c.c, c.s)))
				}
				marked = true
			})
		}
		for i, n := range sc.getters {
			i, n := i, n
			gctx := ctx
			if sc.cancelFirst && i > 0 {
				gctx = context.Background()
			}
			mcrt.GoNamed(fmt.Sprintf("getter%d", i+1), func() {
				for k := 0; k < n; k++ {
					b, err := cc.Get(gctx)
					results[i] = append(results[i], getRes{b, err})
					if err != nil {
						break
					}
				}
				finished[i] = true
			})
		}
		if sc.cancel {
			mcrt.GoNamed("canceller", func() { cancel() })
		}
	})
	if s.Broken != "" {
		return "", "harness: " + s.Broken
	}
	_ = marked
	// ---- oracle on the finished execution
	added := map[cmdID]bool{}
	total := 0
	for _, cmds := range sc.adders {
		for _, c := range cmds {
			added[c] = true
			total++
		}
	}
	handed := map[cmdID]int{}
	var outcome []string
	for gi, rs := range results {
		lastSeq := map[uint32]uint64{}
		for _, gr := range rs {
			if gr.err != nil {
				outcome = append(outcome, fmt.Sprintf("g%d:err", gi+1))
				if gr.b != nil {
					fail = "Get returned both a batch and an error"
				}
				if !sc.cancel || (sc.cancelFirst && gi > 0) {
					fail = fmt.Sprintf("Get ended with %v although its context was never cancelled", gr.err)
				}
				continue
			}
			ids := batchIDs(gr.b)
			outcome = append(outcome, fmt.Sprintf("g%d:%v", gi+1, ids))
			if len(ids) != sc.size {
				fail = fmt.Sprintf("Get returned a batch of %d commands, batch size is %d", len(ids), sc.size)
			}
			for _, id := range ids {
				if !added[id] {
					fail = fmt.Sprintf("Get returned command %v that was never added", id)
				}
				handed[id]++
				if handed[id] > 1 {
					fail = fmt.Sprintf("command %v was handed out twice", id)
				}
				if id.s <= lastSeq[id.c] {
					fail = fmt.Sprintf("commands of client %d handed out in the wrong order (%d after %d)", id.c, id.s, lastSeq[id.c])
				}
				lastSeq[id.c] = id.s
			}
		}
	}
	// nothing lost: every added command was handed out, is still cached, or is at/below the proposed mark
	cached := dump.Fields(cc, nil, "cache")
	for id := range added {
		if handed[id] > 0 {
			continue
		}
		stale := false
		for _, mk := range sc.marks {
			if mk.c == id.c && mk.s >= id.s {
				stale = true
			}
		}
		tag := fmt.Sprintf("ClientID:%d,SequenceNumber:%d,", id.c, id.s)
		if !stale && !strings.Contains(cached, tag) {
			fail = fmt.Sprintf("command %v was neither handed out nor kept in the cache (lost)", id)
		}
	}
	// lost wake-up: the execution ended with a getter blocked although a full batch of fresh commands is cached
	if s.Deadlock && fail == "" {
		fresh := 0
		for id := range added {
			stale := false
			for _, mk := range sc.marks {
				if mk.c == id.c && mk.s >= id.s {
					stale = true
				}
			}
			if handed[id] == 0 && !stale {
				fresh++
			}
		}
		if fresh >= sc.size {
			fail = fmt.Sprintf("lost wake-up: a Get is blocked forever although %d fresh commands are cached (batch size %d)", fresh, sc.size)
		} else if !sc.cancel {
			// blocked with too few commands and nobody to cancel: expected end of this scenario
		}
	}
	return strings.Join(outcome, " "), fail
}
