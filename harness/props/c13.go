package props

import (
	"context"
	"fmt"
	"sort"
	"strings"
	"time"

	"github.com/relab/hotstuff"
	"github.com/relab/hotstuff/core/eventloop"
	"github.com/relab/hotstuff/internal/proto/clientpb"
	"github.com/relab/hotstuff/internal/proto/hotstuffpb"
	"github.com/relab/hotstuff/network"
	"github.com/relab/hotstuff/protocol"
	"github.com/relab/hotstuff/protocol/consensus"
	"github.com/relab/hotstuff/security/blockchain"
	"github.com/relab/hotstuff/security/cert"
	"github.com/relab/hotstuff/security/crypto"
	"github.com/relab/hotstuff/zverif/dump"
	"github.com/relab/hotstuff/zverif/ev"
	"github.com/relab/hotstuff/zverif/fix"
	"github.com/relab/hotstuff/zverif/par"
)

func init() { Registry["C13"] = c13 }

// fBlock is one block of an abstract forest: parent index (-1 genesis, -2 missing) and view.
type fBlock struct {
	parent int
	view   int
}

type forest []fBlock

func (f forest) String() string {
	var sb []string
	for i, b := range f {
		p := fmt.Sprintf("b%d", b.parent)
		if b.parent == -1 {
			p = "G"
		} else if b.parent == -2 {
			p = "missing"
		}
		sb = append(sb, fmt.Sprintf("b%d(v%d<-%s)", i, b.view, p))
	}
	return strings.Join(sb, " ")
}

// forests enumerates all forests with exactly k blocks, views in 1..maxView growing along parents.
func forests(k, maxView int, allowMissing bool, fn func(forest)) {
	f := make(forest, 0, k)
	var rec func()
	rec = func() {
		if len(f) == k {
			fn(f)
			return
		}
		lo := -1
		if allowMissing {
			lo = -2
		}
		for p := lo; p < len(f); p++ {
			minV := 1
			if p >= 0 {
				minV = f[p].view + 1
			}
			for v := minV; v <= maxView; v++ {
				// canonical order: blocks are listed with non-decreasing (view) to cut symmetric copies
				if len(f) > 0 && v < f[len(f)-1].view {
					continue
				}
				f = append(f, fBlock{p, v})
				rec()
				f = f[:len(f)-1]
			}
		}
	}
	rec()
}

// realize builds the real blocks of a forest. Every block carries one unique command.
func realize(f forest) []*hotstuff.Block {
	missing := hotstuff.NewBlock(hotstuff.Hash{1}, fix.GenesisQC(), fix.Batch(), 1, 9) // never stored anywhere
	bs := make([]*hotstuff.Block, len(f))
	for i, fb := range f {
		var ph hotstuff.Hash
		switch {
		case fb.parent == -1:
			ph = hotstuff.GetGenesis().Hash()
		case fb.parent == -2:
			ph = missing.Hash()
		default:
			ph = bs[fb.parent].Hash()
		}
		qc := hotstuff.NewQuorumCert(nil, 0, ph)
		bs[i] = hotstuff.NewBlock(ph, qc, fix.Batch(fix.Cmd(1, uint64(i+1))), hotstuff.View(fb.view), hotstuff.ID(i%4+1))
	}
	return bs
}

type peerMode int

const (
	peerSilent peerMode = iota
	peerHonest
	peerLying
)

// netSender emulates GorumsSender.RequestBlock: replies of the peers go through the real quorum function.
type netSender struct {
	fix.Sender
	mode   peerMode
	remote map[hotstuff.Hash]*hotstuff.Block
	liar   *hotstuff.Block
}

func newChain(ns *netSender) (*blockchain.Blockchain, *eventloop.EventLoop) {
	lg := &fix.NopLogger{}
	el := eventloop.New(lg, 1000)
	ns.Fetch = func(h hotstuff.Hash) (*hotstuff.Block, bool) {
		replies := map[uint32]*hotstuffpb.Block{}
		switch ns.mode {
		case peerHonest:
			if b, ok := ns.remote[h]; ok {
				replies[2] = hotstuffpb.BlockToProto(b)
			}
		case peerLying:
			replies[3] = hotstuffpb.BlockToProto(ns.liar)
			if b, ok := ns.remote[h]; ok {
				replies[2] = hotstuffpb.BlockToProto(b)
			}
		}
		pb, ok := network.VerifRequestBlockQF(&hotstuffpb.BlockHash{Hash: h[:]}, replies)
		if !ok {
			return nil, false
		}
		return hotstuffpb.BlockFromProto(pb), true
	}
	return blockchain.New(el, lg, &ns.Sender), el
}

func c13(r *ev.Reporter, _ []string) {
	r.Rule = "(1) every forest of <=K blocks (forks, equal views on different branches, missing ancestors): Extends(a,b) for all pairs vs reference ancestry; (2) every sequence of store / re-store / get (peers honest, lying, silent; fetch through the real quorum function) up to depth D on forests of <=3 blocks; (3) every store order and commit history of every forest driven through the real Committer: abandoned blocks vs committed chain; distinct = forests x histories"
	kExt, kSeq, dSeq, kCommit := 5, 3, 5, 4
	if !r.Quick() {
		kExt, dSeq, kCommit = 6, 6, 5
	}
	t0 := time.Now()
	c13Extends(r, kExt)
	t1 := time.Now()
	c13StoreGet(r, kSeq, dSeq)
	t2 := time.Now()
	c13Commit(r, kCommit)
	r.Extra["part_seconds"] = []float64{t1.Sub(t0).Seconds(), t2.Sub(t1).Seconds(), time.Since(t2).Seconds()}
	r.Extra["bounds"] = map[string]int{"extends_max_blocks": kExt, "storeget_blocks": kSeq, "storeget_depth": dSeq, "commit_max_blocks": kCommit}
	r.Traces = r.Evaluations
	r.Explanation = "All operations run on the real Blockchain / Committer; fetches pass through the real qspec.RequestBlockQF with protobuf-converted replies."
}

func c13Extends(r *ev.Reporter, maxK int) {
	for k := 1; k <= maxK; k++ {
		var all []forest
		forests(k, k+1, true, func(f forest) { all = append(all, append(forest(nil), f...)) })
		par.Each(len(all), func(i int) {
			f := all[i]
			bs := realize(f)
			ns := &netSender{mode: peerSilent}
			chain, _ := newChain(ns)
			for _, b := range bs {
				chain.Store(b)
			}
			nodes := append([]*hotstuff.Block{hotstuff.GetGenesis()}, bs...)
			// reference: ancestor-or-self along stored parent links
			anc := func(a, t *hotstuff.Block) bool {
				cur := a
				for {
					if cur.Hash() == t.Hash() {
						return true
					}
					var next *hotstuff.Block
					for _, x := range nodes {
						if x.Hash() == cur.Parent() {
							next = x
						}
					}
					if next == nil {
						return false
					}
					cur = next
				}
			}
			var st, tr int64
			for _, a := range nodes {
				for _, t := range nodes {
					var got bool
					if p := safely(func() { got = chain.Extends(a, t) }); p != nil {
						r.Violation("Extends panics", fmt.Sprintf("forest %v: Extends panicked: %v", f, p), map[string]any{"forest": f.String()})
						continue
					}
					tr++
					if want := anc(a, t); got != want {
						r.Violation("Extends wrong answer", fmt.Sprintf("forest %v: Extends(view %d, view %d)=%v, reference ancestry says %v", f, a.View(), t.View(), got, want), map[string]any{"forest": f.String()})
					}
				}
			}
			st++
			r.Count(st, tr, tr, 1)
		})
	}
	r.Sample("forest b0(v1<-G) b1(v2<-b0) b2(v2<-G) b3(v3<-missing): Extends for all 25 pairs incl. genesis")
}

// ---- (2) store / get sequences ----

var c13DumpOpts = &dump.Options{SkipFields: map[string]bool{
	"github.com/relab/hotstuff/security/blockchain.Blockchain.eventLoop": true,
	"github.com/relab/hotstuff/security/blockchain.Blockchain.logger":    true,
	"github.com/relab/hotstuff/security/blockchain.Blockchain.sender":    true,
}}

func c13StoreGet(r *ev.Reporter, k, depth int) {
	var all []forest
	forests(k, k, false, func(f forest) { all = append(all, append(forest(nil), f...)) })
	// operations: store(i), get(i, mode) for i<k and mode in 3 peer modes, get(unknown, mode)
	type op struct {
		store bool
		blk   int // k = unknown hash
		mode  peerMode
	}
	var ops []op
	for i := 0; i < k; i++ {
		ops = append(ops, op{store: true, blk: i})
	}
	for _, i := range []int{0, k - 1, k} {
		for m := peerSilent; m <= peerLying; m++ {
			ops = append(ops, op{blk: i, mode: m})
		}
	}
	modeName := []string{"silent", "honest", "lying"}
	par.Each(len(all), func(fi int) {
		f := all[fi]
		bs := realize(f)
		liar := hotstuff.NewBlock(hotstuff.GetGenesis().Hash(), fix.GenesisQC(), fix.Batch(fix.Cmd(7, 7)), 1, 3)
		unknown := hotstuff.Hash{0xee}
		var st, tr int64
		seqOps := make([]int, 0, depth)
		var rec func()
		run := func() {
			ns := &netSender{mode: peerSilent, remote: map[hotstuff.Hash]*hotstuff.Block{}, liar: liar}
			for _, b := range bs {
				ns.remote[b.Hash()] = b
			}
			chain, _ := newChain(ns)
			have := map[hotstuff.Hash]bool{hotstuff.GetGenesis().Hash(): true}
			var names []string
			for _, oi := range seqOps {
				o := ops[oi]
				tr++
				if o.store {
					names = append(names, fmt.Sprintf("store(b%d)", o.blk))
					before := ""
					if have[bs[o.blk].Hash()] {
						before = dump.String(chain, c13DumpOpts)
					}
					chain.Store(bs[o.blk])
					if before != "" && dump.String(chain, c13DumpOpts) != before {
						r.Violation("re-store changes the store", fmt.Sprintf("forest %v, ops %v: storing b%d again changed the store", f, names, o.blk), map[string]any{"forest": f.String(), "ops": names})
					}
					have[bs[o.blk].Hash()] = true
					continue
				}
				h := unknown
				if o.blk < k {
					h = bs[o.blk].Hash()
				}
				names = append(names, fmt.Sprintf("get(b%d,%s)", o.blk, modeName[o.mode]))
				ns.mode = o.mode
				var got *hotstuff.Block
				var ok bool
				if p := safely(func() { got, ok = chain.Get(h) }); p != nil {
					r.Violation("Get panics", fmt.Sprintf("forest %v ops %v: %v", f, names, p), map[string]any{"forest": f.String(), "ops": names})
					return
				}
				if ok && got.Hash() != h {
					r.Violation("Get returns a block with another hash", fmt.Sprintf("forest %v, ops %v: requested %s got %s", f, names, h.SmallString(), got.Hash().SmallString()), map[string]any{"forest": f.String(), "ops": names})
				}
				wantOK := have[h] || (o.blk < k && o.mode != peerSilent)
				if ok != wantOK {
					r.Violation("Get availability", fmt.Sprintf("forest %v, ops %v: found=%v want %v", f, names, ok, wantOK), map[string]any{"forest": f.String(), "ops": names})
				}
				if ok {
					have[h] = true
				}
				// what is stored must still be retrievable locally and content-addressed
				for hh := range have {
					b, ok2 := chain.LocalGet(hh)
					if !ok2 || b.Hash() != hh {
						r.Violation("LocalGet after operations", fmt.Sprintf("forest %v, ops %v: stored block %s lost or replaced", f, names, hh.SmallString()), map[string]any{"forest": f.String(), "ops": names})
					}
				}
			}
			st++
		}
		rec = func() {
			if len(seqOps) == depth {
				run()
				return
			}
			for oi := range ops {
				seqOps = append(seqOps, oi)
				rec()
				seqOps = seqOps[:len(seqOps)-1]
			}
		}
		// only a few forests are needed here: the operations do not depend on the shape
		if fi == 0 || fi == len(all)/2 || fi == len(all)-1 {
			rec()
		}
		r.Count(st, tr, tr, st)
	})
	r.Sample("ops store(b0) get(b1,lying) get(b1,honest) store(b1) get(unknown,lying): the liar's block never enters the store")
}

// ---- (3) commit / prune histories through the real Committer ----

type scriptRuler struct{ target *hotstuff.Block }

func (s *scriptRuler) CommitRule(*hotstuff.Block) *hotstuff.Block { return s.target }

func c13Commit(r *ev.Reporter, maxK int) {
	for k := 2; k <= maxK; k++ {
		var all []forest
		forests(k, k+1, false, func(f forest) { all = append(all, append(forest(nil), f...)) })
		par.Each(len(all), func(fi int) {
			f := all[fi]
			c13CommitForest(r, f)
		})
	}
	r.Sample("forest b0(v1<-G) b1(v2<-b0) b2(v3<-b1) b3(v3<-b0): store order b0 b1 b2 b3, commit b2 -> b3 abandoned, b1 must not be")
}

func c13CommitForest(r *ev.Reporter, f forest) {
	k := len(f)
	// presentation orders: all permutations with parents before children
	perm := make([]int, 0, k)
	used := make([]bool, k)
	var st, tr int64
	var recPerm func()
	// commit plan: after presenting position i, commit target c (or none); targets must extend the last committed block
	isAnc := func(a, d int) bool { // a ancestor-or-self of d (a=-1 genesis)
		for cur := d; ; cur = f[cur].parent {
			if cur == a {
				return true
			}
			if cur < 0 {
				return a == -1 && cur == -1
			}
		}
	}
	recPerm = func() {
		if len(perm) == k {
			// enumerate commit plans
			plan := make([]int, k) // plan[i] = block to commit after presenting perm[i], or -1
			var recPlan func(i, last int)
			recPlan = func(i, last int) {
				if i == k {
					st++
					tr += int64(k)
					c13RunHistory(r, f, perm, plan)
					return
				}
				plan[i] = -1
				recPlan(i+1, last)
				for c := 0; c < k; c++ {
					presented := false
					for _, p := range perm[:i+1] {
						if p == c {
							presented = true
						}
					}
					lastView := 0
					if last >= 0 {
						lastView = f[last].view
					}
					if presented && f[c].view > lastView && isAnc(last, c) {
						plan[i] = c
						recPlan(i+1, c)
					}
				}
				plan[i] = -1
			}
			recPlan(0, -1)
			return
		}
		for i := 0; i < k; i++ {
			if used[i] {
				continue
			}
			if p := f[i].parent; p >= 0 && !used[p] {
				continue
			}
			used[i] = true
			perm = append(perm, i)
			recPerm()
			perm = perm[:len(perm)-1]
			used[i] = false
		}
	}
	recPerm()
	r.Count(st, tr, st, st)
}

func c13RunHistory(r *ev.Reporter, f forest, perm, plan []int) {
	bs := realize(f)
	ns := &netSender{mode: peerSilent}
	chain, el := newChain(ns)
	lg := &fix.NopLogger{}
	cfg := fix.NewCluster(1, crypto.NameEDDSA, fix.Opts{})
	auth := cert.NewAuthority(cfg.Cfgs[0], chain, cfg.Recs[0])
	vs, err := protocol.NewViewStates(chain, auth)
	if err != nil {
		panic(err)
	}
	ruler := &scriptRuler{}
	cm := consensus.NewCommitter(el, lg, chain, vs, ruler)
	var commits []*hotstuff.Block
	aborted := map[uint64]int{}
	eventloop.Register(el, func(e hotstuff.CommitEvent) { commits = append(commits, e.Block) })
	eventloop.Register(el, func(e clientpb.AbortEvent) {
		for _, c := range e.Batch.GetCommands() {
			aborted[c.SequenceNumber]++
		}
	})
	desc := func() string {
		var sb []string
		for i, p := range perm {
			s := fmt.Sprintf("present b%d", p)
			if plan[i] >= 0 {
				s += fmt.Sprintf("+commit b%d", plan[i])
			}
			sb = append(sb, s)
		}
		return strings.Join(sb, "; ")
	}
	last := -1
	for i, p := range perm {
		ruler.target = nil
		if plan[i] >= 0 {
			ruler.target = bs[plan[i]]
			last = plan[i]
		}
		var terr error
		if pn := safely(func() { terr = cm.TryCommit(bs[p]) }); pn != nil {
			r.Violation("commit panics", fmt.Sprintf("forest %v history [%s]: %v", f, desc(), pn), map[string]any{"forest": f.String(), "history": desc()})
			return
		}
		_ = terr
		for el.Tick(context.Background()) {
		}
	}
	// committed chain = path from genesis to last
	onChain := map[uint64]bool{}
	for cur := last; cur >= 0; cur = f[cur].parent {
		onChain[uint64(cur+1)] = true
	}
	var ab []int
	for seq, n := range aborted {
		ab = append(ab, int(seq))
		if onChain[seq] {
			r.Violation("committed block reported as abandoned", fmt.Sprintf("forest %v history [%s]: block b%d is on the committed chain but was reported as abandoned", f, desc(), seq-1), map[string]any{"forest": f.String(), "history": desc()})
		}
		if n > 1 {
			r.Violation("abandoned block reported twice", fmt.Sprintf("forest %v history [%s]: block b%d reported abandoned %d times", f, desc(), seq-1, n), map[string]any{"forest": f.String(), "history": desc()})
		}
	}
	sort.Ints(ab)
	// the committed sequence is the chain in ancestor-first order
	var want []int
	for cur := last; cur >= 0; cur = f[cur].parent {
		want = append([]int{cur}, want...)
	}
	if len(commits) != len(want) {
		r.Violation("commit sequence differs from the chain", fmt.Sprintf("forest %v history [%s]: %d commit events, chain has %d blocks", f, desc(), len(commits), len(want)), map[string]any{"forest": f.String(), "history": desc()})
		return
	}
	for i, w := range want {
		if commits[i].Hash() != bs[w].Hash() {
			r.Violation("commit sequence differs from the chain", fmt.Sprintf("forest %v history [%s]: commit %d is not b%d", f, desc(), i, w), map[string]any{"forest": f.String(), "history": desc()})
			return
		}
	}
}
