// Package par shards exhaustive enumerations over worker goroutines.
package par

import (
	"runtime"
	"sync"
)

// Workers is the number of parallel workers used by the enumerations.
func Workers() int {
	n := runtime.NumCPU()
	if n > 16 {
		n = 16
	}
	return n
}

// Seqs enumerates all sequences over alphabet {0..k-1} of length exactly depth whose first
// `split` symbols form the shard key; fn is called with each shard prefix on a worker
// and is expected to enumerate the rest itself. Returns after all shards are done.
func Shards(k, split int, fn func(prefix []int)) {
	var prefixes [][]int
	var rec func(p []int)
	rec = func(p []int) {
		if len(p) == split {
			prefixes = append(prefixes, append([]int(nil), p...))
			return
		}
		for i := 0; i < k; i++ {
			rec(append(p, i))
		}
	}
	rec(nil)
	Each(len(prefixes), func(i int) { fn(prefixes[i]) })
}

// Each runs fn(0..n-1) on the worker pool.
func Each(n int, fn func(i int)) {
	var wg sync.WaitGroup
	ch := make(chan int)
	for w := 0; w < Workers(); w++ {
		wg.Add(1)
		go func() {
			defer wg.Done()
			for i := range ch {
				fn(i)
			}
		}()
	}
	for i := 0; i < n; i++ {
		ch <- i
	}
	close(ch)
	wg.Wait()
}
