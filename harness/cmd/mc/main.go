// Command mc runs one property check: mc <property id> <quick|thorough> [--replay file]
package main

import (
	"fmt"
	"os"
	"runtime"
	"runtime/pprof"
	"time"

	"github.com/relab/hotstuff/zverif/ev"
	"github.com/relab/hotstuff/zverif/props"
)

func main() {
	if len(os.Args) < 3 {
		fmt.Fprintln(os.Stderr, "usage: mc <id> <quick|thorough> [args]")
		os.Exit(2)
	}
	id, tier := os.Args[1], os.Args[2]
	f, ok := props.Registry[id]
	if !ok {
		fmt.Fprintf(os.Stderr, "unknown property %s\n", id)
		os.Exit(2)
	}
	if p := os.Getenv("VERIF_HEAPPROF"); p != "" { // debugging aid: heap profile and goroutine count after 60 s
		go func() {
			time.Sleep(60 * time.Second)
			if w, err := os.Create(p); err == nil {
				runtime.GC()
				_ = pprof.WriteHeapProfile(w)
				w.Close()
			}
			fmt.Fprintf(os.Stderr, "heapprof: goroutines=%d\n", runtime.NumGoroutine())
		}()
	}
	r := ev.New(id, tier)
	func() {
		// A panic inside the harness (a fixture helper that assumes an operation of the code under test
		// succeeds) after violations were recorded must not turn the verdict into "no verdict": the recorded
		// violations are real executions. Without any violation it stays a broken harness (exit 2).
		defer func() {
			if p := recover(); p != nil {
				if r.Violations() == 0 {
					panic(p)
				}
				fmt.Fprintf(os.Stderr, "harness stopped early after %d violations: %v\n", r.Violations(), p)
				r.Cap(fmt.Sprintf("the run stopped early (after the reported violations): %v", p))
			}
		}()
		f(r, os.Args[3:])
	}()
	os.Exit(r.Finish())
}
