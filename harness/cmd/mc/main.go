// Command mc runs one property check: mc <property id> <quick|thorough> [--replay file]
package main

import (
	"fmt"
	"os"

	"github.com/relab/hotstuff/zverif/ev"
	"github.com/relab/hotstuff/zverif/props"
)

func main() {
	if len(os.Args) < 3 {
		fmt.Fprintln(os.Stderr, "usage: mc <id> <quick|thorough> [args]")
		os.Exit(2)
	}
	id, tier := os.Args[1], os.Args[2]
	f, ok := props.Registry[id]
	if !ok {
		fmt.Fprintf(os.Stderr, "unknown property %s\n", id)
		os.Exit(2)
	}
	r := ev.New(id, tier)
	f(r, os.Args[3:])
	os.Exit(r.Finish())
}
