// Command mc runs one property check: mc <property id> <quick|thorough> [--replay file]
package main

import (
	"fmt"
	"os"
	"runtime"
	"runtime/pprof"
	"time"

	"github.com/relab/hotstuff/zverif/ev"
	"github.com/relab/hotstuff/zverif/props"
)

func main() {
	if len(os.Args) < 3 {
		fmt.Fprintln(os.Stderr, "usage: mc <id> <quick|thorough> [args]")
		os.Exit(2)
	}
	id, tier := os.Args[1], os.Args[2]
	f, ok := props.Registry[id]
	if !ok {
		fmt.Fprintf(os.Stderr, "unknown property %s\n", id)
		os.Exit(2)
	}
	if p := os.Getenv("VERIF_HEAPPROF"); p != "" { // debugging aid: heap profile and goroutine count after 60 s
		go func() {
			time.Sleep(60 * time.Second)
			if w, err := os.Create(p); err == nil {
				runtime.GC()
				_ = pprof.WriteHeapProfile(w)
				w.Close()
			}
			fmt.Fprintf(os.Stderr, "heapprof: goroutines=%d\n", runtime.NumGoroutine())
		}()
	}
	r := ev.New(id, tier)
	f(r, os.Args[3:])
	os.Exit(r.Finish())
}
