// Package seq is the explicit-state search over operation sequences on one real
// component (engine E3): depth-first, successor = live instance for the first child and
// replay of the parent prefix on a fresh instance for the others, optional canonical-state
// de-duplication, sharded over workers by depth-2 prefixes.
package seq

import (
	"crypto/sha256"
	"sync"
	"sync/atomic"

	"github.com/relab/hotstuff/zverif/par"
)

// System is one live instance of the component under test plus its reference model.
type System interface {
	// Apply executes the operation on the real component, advances the reference model and
	// returns "" or a description of the first disagreement.
	Apply(op int) string
	// Key is the canonical state (only used when Config.Dedup is set).
	Key() string
}

type Config struct {
	NumOps   int
	MaxDepth int
	Dedup    bool
	New      func() System
	// Enabled may prune operations that are no-ops in the current state (nil = all enabled).
	Enabled func(s System, op int) bool
	// MaxStates caps the number of distinct states kept (0 = no cap); reaching it sets Stats.Stopped.
	MaxStates int64
	// Stop is polled; when it returns true the search winds down (a cap, not a verdict).
	Stop func() bool
	// OnFail receives every failing sequence.
	OnFail func(ops []int, msg string)
}

type Stats struct {
	States      int64 // distinct canonical states (Dedup) or visited nodes
	Transitions int64 // real operations executed, replays excluded
	Replays     int64 // operations re-executed while replaying prefixes
	Sequences   int64 // maximal sequences (leaves)
	MaxDepth    int
	Stopped     bool
}

// visited maps the 128-bit digest of a canonical state to the deepest remaining depth it was
// explored with; striped so that workers rarely contend, and compact (digest + one byte) so that
// 10^8 states fit in memory. A digest collision (probability < 2^-60 at 10^9 states) would merge
// two states; nothing else is lost by hashing.
type visited struct {
	stripes [256]struct {
		mu sync.Mutex
		m  map[[16]byte]int8
	}
}

// enter reports whether the state still has to be explored with this remaining depth, and whether it is new.
func (v *visited) enter(key string, remaining int) (explore, fresh bool) {
	sum := sha256.Sum256([]byte(key))
	var k [16]byte
	copy(k[:], sum[:16])
	st := &v.stripes[sum[16]]
	st.mu.Lock()
	defer st.mu.Unlock()
	if st.m == nil {
		st.m = map[[16]byte]int8{}
	}
	old, ok := st.m[k]
	if ok && int(old) >= remaining {
		return false, false
	}
	st.m[k] = int8(remaining)
	return true, !ok
}

type searcher struct {
	cfg     Config
	visited visited
	st      Stats
	stopped atomic.Bool
}

func (s *searcher) replay(prefix []int) System {
	sys := s.cfg.New()
	for _, op := range prefix {
		sys.Apply(op)
	}
	atomic.AddInt64(&s.st.Replays, int64(len(prefix)))
	return sys
}

func (s *searcher) explore(prefix []int, live System) {
	if s.stopped.Load() || (s.cfg.Stop != nil && s.cfg.Stop()) {
		s.stopped.Store(true)
		return
	}
	remaining := s.cfg.MaxDepth - len(prefix)
	if s.cfg.Dedup {
		explore, fresh := s.visited.enter(live.Key(), remaining)
		if fresh {
			if n := atomic.AddInt64(&s.st.States, 1); s.cfg.MaxStates > 0 && n > s.cfg.MaxStates {
				s.stopped.Store(true) // memory cap, reported as a cap by the caller
				return
			}
		}
		if !explore {
			return // already explored at least this deep from here
		}
	} else {
		atomic.AddInt64(&s.st.States, 1)
	}
	if remaining == 0 {
		atomic.AddInt64(&s.st.Sequences, 1)
		return
	}
	first := true
	for op := 0; op < s.cfg.NumOps; op++ {
		if s.cfg.Enabled != nil && !s.cfg.Enabled(live, op) && first {
			continue
		}
		var sys System
		if first {
			sys = live
		} else {
			sys = s.replay(prefix)
			if s.cfg.Enabled != nil && !s.cfg.Enabled(sys, op) {
				continue
			}
		}
		first = false
		child := append(append(make([]int, 0, len(prefix)+1), prefix...), op)
		msg := sys.Apply(op)
		atomic.AddInt64(&s.st.Transitions, 1)
		if msg != "" {
			s.cfg.OnFail(child, msg)
			continue
		}
		s.explore(child, sys)
	}
}

// Run explores all sequences up to cfg.MaxDepth.
func Run(cfg Config) Stats {
	s := &searcher{cfg: cfg}
	s.st.MaxDepth = cfg.MaxDepth
	if cfg.MaxDepth < 2 {
		s.explore(nil, cfg.New())
		s.st.Stopped = s.stopped.Load()
		return s.st
	}
	// shard on depth-2 prefixes; the root and depth-1 states are visited by the shards' replays
	var mu sync.Mutex
	par.Shards(cfg.NumOps, 2, func(prefix []int) {
		sys := cfg.New()
		for i, op := range prefix {
			if cfg.Enabled != nil && !cfg.Enabled(sys, op) {
				return
			}
			msg := sys.Apply(op)
			// count each depth-1 edge once (by the shard whose second op is 0) and every depth-2 edge
			if i == 1 || prefix[1] == 0 {
				atomic.AddInt64(&s.st.Transitions, 1)
				if msg != "" {
					mu.Lock()
					cfg.OnFail(append([]int(nil), prefix[:i+1]...), msg)
					mu.Unlock()
				}
			}
			if msg != "" {
				return
			}
		}
		s.explore(prefix, sys)
	})
	s.st.Stopped = s.stopped.Load()
	return s.st
}
