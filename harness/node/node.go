// Package node builds one complete replica from the production constructors, wired as
// twins.newNode / replica.New do, with a harness-owned core.Sender, leader table and
// (never firing) view timer.
package node

import (
	"context"
	"time"

	"github.com/relab/hotstuff"
	"github.com/relab/hotstuff/core"
	"github.com/relab/hotstuff/core/eventloop"
	"github.com/relab/hotstuff/internal/proto/clientpb"
	"github.com/relab/hotstuff/protocol"
	"github.com/relab/hotstuff/protocol/comm"
	"github.com/relab/hotstuff/protocol/consensus"
	"github.com/relab/hotstuff/protocol/leaderrotation"
	"github.com/relab/hotstuff/protocol/rules"
	"github.com/relab/hotstuff/protocol/synchronizer"
	"github.com/relab/hotstuff/protocol/votingmachine"
	"github.com/relab/hotstuff/security/blockchain"
	"github.com/relab/hotstuff/security/cert"
	"github.com/relab/hotstuff/security/crypto"
	"github.com/relab/hotstuff/server"
	"github.com/relab/hotstuff/wiring"
	"github.com/relab/hotstuff/zverif/fix"
)

// LeaderFunc is a harness leader table.
type LeaderFunc func(hotstuff.View) hotstuff.ID

func (f LeaderFunc) GetLeader(v hotstuff.View) hotstuff.ID { return f(v) }

// Opts configures one replica.
type Opts struct {
	ID        hotstuff.ID
	N         int
	Scheme    string // crypto scheme name
	Rules     string // consensus ruleset name
	Leader    leaderrotation.LeaderRotation
	RoundRobin bool  // use the production RoundRobin object instead of Leader
	Cache     uint
	Async     bool // asynchronous vote verification
	Sender    core.Sender
	Truth     *fix.Truth
	BatchSize uint32
	QueueN    uint
	Key       hotstuff.PrivateKey // nil = fix.Key(Scheme, ID)
	// Peers lists all replica ids with public keys / metadata (filled by the caller after
	// all nodes' configs exist when BLS proofs of possession are needed).
}

// Node is one wired replica plus the observations the monitors need.
type Node struct {
	ID      hotstuff.ID
	Cfg     *core.RuntimeConfig
	Loop    *eventloop.EventLoop
	Log     *fix.NopLogger
	Rec     *fix.Recorder
	Chain   *blockchain.Blockchain
	Auth    *cert.Authority
	Rules   consensus.Ruleset
	VS      *protocol.ViewStates
	Commit  *consensus.Committer
	Voter   *consensus.Voter
	Prop    *consensus.Proposer
	VM      *votingmachine.VotingMachine
	Comm    *comm.Clique
	Sync    *synchronizer.Synchronizer
	Cmds    *clientpb.CommandCache
	CIO     *server.ClientIO
	Leader  leaderrotation.LeaderRotation

	Commits     []*hotstuff.Block
	ViewChanges []hotstuff.ViewChangeEvent
	Executed    []*clientpb.Batch
	Aborted     []*clientpb.Batch
}

// New wires a replica. The caller must afterwards call AddPeers on every node.
func New(o Opts) *Node {
	if o.BatchSize == 0 {
		o.BatchSize = 1
	}
	if o.QueueN == 0 {
		o.QueueN = 1000
	}
	key := o.Key
	if key == nil {
		key = fix.Key(o.Scheme, o.ID)
	}
	var ropts []core.RuntimeOption
	if !o.Async {
		ropts = append(ropts, core.WithSyncVerification())
	}
	if o.Cache > 0 {
		ropts = append(ropts, core.WithCache(o.Cache))
	}
	if o.Rules == rules.NameFastHotStuff {
		ropts = append(ropts, core.WithAggregateQC())
	}
	n := &Node{ID: o.ID, Log: &fix.NopLogger{}}
	n.Cfg = core.NewRuntimeConfig(o.ID, key, ropts...)
	n.Loop = eventloop.New(n.Log, o.QueueN)
	base, err := crypto.New(n.Cfg, o.Scheme)
	if err != nil {
		panic(err)
	}
	truth := o.Truth
	if truth == nil {
		truth = fix.NewTruth()
	}
	n.Rec = &fix.Recorder{Base: base, ID: o.ID, Truth: truth}
	sec := wiring.NewSecurity(n.Loop, n.Log, n.Cfg, o.Sender, n.Rec)
	n.Chain, n.Auth = sec.Blockchain(), sec.Authority()
	n.Rules, err = rules.New(n.Log, n.Cfg, n.Chain, o.Rules)
	if err != nil {
		panic(err)
	}
	n.VS, err = protocol.NewViewStates(n.Chain, n.Auth)
	if err != nil {
		panic(err)
	}
	n.Leader = o.Leader
	if o.RoundRobin {
		n.Leader = leaderrotation.NewRoundRobin(n.Cfg)
	}
	n.Cmds = clientpb.NewCommandCache(o.BatchSize)
	n.CIO = server.NewClientIO(n.Loop, n.Log, n.Cmds)
	// The harness calls ClientIO's handlers directly and never serves a listener. Stopping the (never
	// started) gRPC server unregisters it from grpc's process-global channelz table, which would otherwise
	// keep every replica ever built reachable (tens of GB over 10^6 executions).
	n.CIO.Stop()
	n.Commit = consensus.NewCommitter(n.Loop, n.Log, n.Chain, n.VS, n.Rules)
	n.VM = votingmachine.New(n.Log, n.Loop, n.Cfg, n.Chain, n.Auth, n.VS)
	n.Comm = comm.NewClique(n.Cfg, n.VM, n.Leader, o.Sender)
	n.Voter = consensus.NewVoter(n.Cfg, n.Leader, n.Rules, n.Comm, n.Auth, n.Commit)
	n.Prop = consensus.NewProposer(n.Loop, n.Cfg, n.Chain, n.VS, n.Rules, n.Comm, n.Voter, n.Cmds, n.Commit)
	n.Sync = synchronizer.New(n.Loop, n.Log, n.Cfg, n.Auth, n.Leader,
		synchronizer.NewFixedDuration(1_000_000*time.Hour),
		synchronizer.NewTimeoutRuler(n.Cfg, n.Auth),
		n.Prop, n.Voter, n.VS, o.Sender)
	eventloop.Register(n.Loop, func(e hotstuff.CommitEvent) { n.Commits = append(n.Commits, e.Block) })
	eventloop.Register(n.Loop, func(e hotstuff.ViewChangeEvent) { n.ViewChanges = append(n.ViewChanges, e) })
	eventloop.Register(n.Loop, func(e clientpb.ExecuteEvent) { n.Executed = append(n.Executed, e.Batch) })
	eventloop.Register(n.Loop, func(e clientpb.AbortEvent) { n.Aborted = append(n.Aborted, e.Batch) })
	return n
}

// AddPeers registers all replicas (public keys and connection metadata) in this node's config.
func (n *Node) AddPeers(all []*Node) {
	for _, p := range all {
		md := map[string]string{}
		for k, v := range p.Cfg.ConnectionMetadata() {
			md[k] = v
		}
		n.Cfg.AddReplica(&hotstuff.ReplicaInfo{ID: p.Cfg.ID(), PubKey: p.Cfg.PrivateKey().Public(), Metadata: md})
	}
}

// AddPeerConfigs registers replicas known only by config (e.g. the signing-only fixture cluster).
func (n *Node) AddPeerConfigs(cfgs []*core.RuntimeConfig) {
	for _, c := range cfgs {
		md := map[string]string{}
		for k, v := range c.ConnectionMetadata() {
			md[k] = v
		}
		n.Cfg.AddReplica(&hotstuff.ReplicaInfo{ID: c.ID(), PubKey: c.PrivateKey().Public(), Metadata: md})
	}
}

// Drain runs the event loop until no event is pending.
func (n *Node) Drain() int {
	k := 0
	for n.Loop.Tick(context.Background()) {
		k++
	}
	return k
}

// Deliver adds an event and drains.
func (n *Node) Deliver(ev any) {
	n.Loop.AddEvent(ev)
	n.Drain()
}

// StockCommands keeps the command cache non-empty so that CreateProposal never blocks.
func (n *Node) StockCommands(client uint32, from, to uint64) {
	for s := from; s <= to; s++ {
		n.Cmds.Add(fix.Cmd(client, s))
	}
}
