// Package ev is the reporting side of every check: evidence file, violation /
// known-finding lines, replay files and the exit code contract.
package ev

import (
	"bufio"
	"crypto/sha256"
	"encoding/hex"
	"encoding/json"
	"fmt"
	"os"
	"path/filepath"
	"sort"
	"strconv"
	"strings"
	"sync"
	"time"
)

// VerifRoot is where evidence, replays and KNOWN_FINDINGS.txt live (the directory of the check script).
var VerifRoot = func() string {
	if v := os.Getenv("VERIF_ROOT"); v != "" {
		return v
	}
	return "/verif"
}()

// Finding is one line of KNOWN_FINDINGS.jsonl.
type Finding struct {
	Kind      string `json:"kind"` // "known" or "fixed"
	Property  string `json:"property"`
	Signature string `json:"signature"`
	What      string `json:"what"`
	Commit    string `json:"commit,omitempty"`
}

// Reporter collects what one run of one check covered and found.
type Reporter struct {
	mu       sync.Mutex
	ID       string
	Tier     string
	Seed     int64
	start    time.Time
	known    map[string]Finding
	seenSig  map[string]bool
	viol     []string // VIOLATION lines
	knownHit []string
	// ReplayOnly is set by a check that only re-ran one recorded violation: the evidence file of the
	// last full run is left alone.
	ReplayOnly bool

	States      int64
	Transitions int64
	Traces      int64
	Evaluations int64
	Nontrivial  int64
	Exhaustive  bool
	Rule        string
	Explanation string
	Samples     []any
	Extra       map[string]any
	Assumptions []string
	Caps        []string
	deadline    time.Time
}

func New(id, tier string) *Reporter {
	seed, _ := strconv.ParseInt(os.Getenv("VERIF_SEED"), 10, 64)
	r := &Reporter{ID: id, Tier: tier, Seed: seed, start: time.Now(), known: map[string]Finding{},
		seenSig: map[string]bool{}, Extra: map[string]any{}, Exhaustive: true, Assumptions: []string{}, Samples: []any{}}
	// KNOWN_FINDINGS.txt, one entry per line, never written at run time:
	//   known: property=<id> sig="<signature>" <what fails>
	//   fixed: property=<id> <commit> <what failed>        (suppresses nothing)
	f, err := os.Open(filepath.Join(VerifRoot, "KNOWN_FINDINGS.txt"))
	if err == nil {
		defer f.Close()
		sc := bufio.NewScanner(f)
		sc.Buffer(make([]byte, 1<<20), 1<<20)
		for sc.Scan() {
			line := strings.TrimSpace(sc.Text())
			if !strings.HasPrefix(line, "known: property=") {
				continue
			}
			rest := strings.TrimPrefix(line, "known: property=")
			pid, rest, _ := strings.Cut(rest, " ")
			if pid != id {
				continue
			}
			rest = strings.TrimSpace(rest)
			if !strings.HasPrefix(rest, "sig=\"") {
				fmt.Fprintf(os.Stderr, "bad KNOWN_FINDINGS line: %s\n", line)
				os.Exit(2)
			}
			rest = rest[5:]
			i := strings.Index(rest, "\" ")
			if i < 0 {
				fmt.Fprintf(os.Stderr, "bad KNOWN_FINDINGS line: %s\n", line)
				os.Exit(2)
			}
			r.known[rest[:i]] = Finding{Kind: "known", Property: pid, Signature: rest[:i], What: strings.TrimSpace(rest[i+2:])}
		}
	}
	return r
}

// Count adds to the coverage counters; safe for concurrent use.
func (r *Reporter) Count(states, transitions, evals, nontrivial int64) {
	r.mu.Lock()
	r.States += states
	r.Transitions += transitions
	r.Evaluations += evals
	r.Nontrivial += nontrivial
	r.mu.Unlock()
}

// Quick reports whether this is the quick tier.
func (r *Reporter) Quick() bool { return r.Tier != "thorough" }

// SetDeadline sets an internal wall-clock budget; Expired() becoming true makes the
// check stop exploring, mark the evidence non-exhaustive and still exit 0.
func (r *Reporter) SetDeadline(d time.Duration) { r.deadline = r.start.Add(d) }
func (r *Reporter) Expired() bool {
	if r.deadline.IsZero() {
		return false
	}
	return time.Now().After(r.deadline)
}

// Cap records that a bound/cap cut the exploration short.
func (r *Reporter) Cap(what string) {
	r.mu.Lock()
	defer r.mu.Unlock()
	r.Exhaustive = false
	for _, c := range r.Caps {
		if c == what {
			return
		}
	}
	r.Caps = append(r.Caps, what)
}

func (r *Reporter) Sample(s any) {
	r.mu.Lock()
	defer r.mu.Unlock()
	if len(r.Samples) < 6 {
		r.Samples = append(r.Samples, s)
	}
}

func (r *Reporter) Assume(s string) { r.Assumptions = append(r.Assumptions, s) }

// Violation reports a failing case. sig names the class of the failure (component /
// call site / canonical failing input); the same sig is reported once per run.
// replay is any JSON-able description sufficient to re-execute the case.
func (r *Reporter) Violation(sig, what string, replay any) {
	r.mu.Lock()
	defer r.mu.Unlock()
	if r.seenSig[sig] {
		return
	}
	r.seenSig[sig] = true
	if k, ok := r.known[sig]; ok {
		r.knownHit = append(r.knownHit, fmt.Sprintf("KNOWN-FINDING: property=%s %s [%s]", r.ID, k.What, sig))
		return
	}
	h := sha256.Sum256([]byte(sig))
	name := fmt.Sprintf("%s-%s.json", r.ID, hex.EncodeToString(h[:6]))
	path := filepath.Join(VerifRoot, "replays", name)
	_ = os.MkdirAll(filepath.Dir(path), 0o755)
	js, _ := json.MarshalIndent(map[string]any{"property": r.ID, "signature": sig, "what": what, "replay": replay}, "", " ")
	_ = os.WriteFile(path, js, 0o644)
	r.viol = append(r.viol, fmt.Sprintf("VIOLATION property=%s replay=%s", r.ID, path))
	fmt.Fprintf(os.Stderr, "violation[%s]: %s\n", sig, what)
}

// Violations returns the number of unlisted violations so far.
func (r *Reporter) Violations() int {
	r.mu.Lock()
	defer r.mu.Unlock()
	return len(r.viol)
}

// Finish writes the evidence file, prints the verdict lines and returns the exit code.
func (r *Reporter) Finish() int {
	r.mu.Lock()
	defer r.mu.Unlock()
	cov := map[string]any{
		"states":                        r.States,
		"transitions":                   r.Transitions,
		"traces_validated_against_impl": r.Traces,
		"evaluations":                   r.Evaluations,
		"distinct_nontrivial":           r.Nontrivial,
		"rule":                          r.Rule,
		"explanation":                   r.Explanation,
		"exhaustive":                    r.Exhaustive,
		"samples":                       r.Samples,
	}
	if len(r.Caps) > 0 {
		cov["caps_hit"] = r.Caps
	}
	keys := make([]string, 0, len(r.Extra))
	for k := range r.Extra {
		keys = append(keys, k)
	}
	sort.Strings(keys)
	for _, k := range keys {
		cov[k] = r.Extra[k]
	}
	if len(r.knownHit) > 0 {
		cov["known_findings_reproduced"] = r.knownHit
	}
	evd := map[string]any{
		"property_id": r.ID,
		"tier":        r.Tier,
		"seed":        r.Seed,
		"level":       "model_checking",
		"coverage":    cov,
		"assumptions": r.Assumptions,
		"wall_s":      time.Since(r.start).Seconds(),
		"violations":  len(r.viol),
	}
	js, _ := json.MarshalIndent(evd, "", " ")
	_ = os.MkdirAll(filepath.Join(VerifRoot, "evidence"), 0o755)
	if r.ReplayOnly {
		// nothing to write
	} else if err := os.WriteFile(filepath.Join(VerifRoot, "evidence", r.ID+".json"), js, 0o644); err != nil {
		fmt.Fprintf(os.Stderr, "cannot write evidence: %v\n", err)
		return 2
	}
	for _, l := range r.knownHit {
		fmt.Println(l)
	}
	for _, l := range r.viol {
		fmt.Println(l)
	}
	fmt.Printf("%s %s: states=%d transitions=%d evaluations=%d exhaustive=%v violations=%d known=%d wall=%.1fs\n",
		r.ID, r.Tier, r.States, r.Transitions, r.Evaluations, r.Exhaustive, len(r.viol), len(r.knownHit), time.Since(r.start).Seconds())
	if len(r.viol) > 0 {
		return 1
	}
	return 0
}

// Broken reports a harness error (never a verdict) and exits 2.
func Broken(format string, a ...any) {
	fmt.Fprintf(os.Stderr, "HARNESS-BROKEN: "+format+"\n", a...)
	os.Exit(2)
}
