package cluster

import (
	"fmt"
	"sync"
	"sync/atomic"
	"time"

	"github.com/relab/hotstuff/zverif/par"
)

// Explorer is the explicit-state search: depth-first with replay-from-root successors,
// canonical-state de-duplication shared by all workers.
type Explorer struct {
	Cfg      Config
	// Bound is the deviation bound: every event other than the default (lock-step FIFO) one costs
	// one deviation. Bound < 0 explores all interleavings.
	Bound    int
	Deadline time.Time
	MaxStates int64
	// Alt restricts which non-default events are explored as deviations (nil = all enabled events).
	Alt func(label string) bool
	// OnState is called once for every new canonical state (with the live world; read only).
	OnState func(w *World, path []string)
	// OnViolation receives every monitor finding together with the event path that produced it.
	OnViolation func(v Violation, path []string)

	visited     sync.Map
	States      int64
	Transitions int64
	Replayed    int64
	Terminal    int64
	MaxDepth    int64
	Commits     int64 // states in which some honest replica has committed
	Starved     int64 // executions abandoned because a leader ran out of client commands (cap)
	Revisits    int64 // states explored again because they were reached with more deviations left
	Stopped     atomic.Bool
	Diverged    atomic.Value // string: first replay divergence (harness error)
	detCheck    int64
	mu          sync.Mutex
}

func (e *Explorer) replay(path []string) *World {
	w := New(e.Cfg)
	for _, l := range path {
		if !w.Apply(l) {
			e.Diverged.CompareAndSwap(nil, fmt.Sprintf("event %q of path %v not enabled on replay", l, path))
			return nil
		}
	}
	atomic.AddInt64(&e.Replayed, int64(len(path)))
	return w
}

func (e *Explorer) expired() bool {
	if e.Stopped.Load() {
		return true
	}
	if (!e.Deadline.IsZero() && time.Now().After(e.Deadline)) || (e.MaxStates > 0 && atomic.LoadInt64(&e.States) >= e.MaxStates) {
		e.Stopped.Store(true)
		return true
	}
	return false
}

func (e *Explorer) visit(w *World, path []string, remaining int) bool {
	key := w.Key()
	nv := int32(remaining)
	if old, loaded := e.visited.LoadOrStore(key, &nv); loaded {
		p := old.(*int32)
		for {
			cur := atomic.LoadInt32(p)
			if cur >= nv {
				return false // already explored from here with at least this many deviations left
			}
			if atomic.CompareAndSwapInt32(p, cur, nv) {
				atomic.AddInt64(&e.Revisits, 1)
				return true
			}
		}
	}
	n := atomic.AddInt64(&e.States, 1)
	if d := int64(len(path)); d > atomic.LoadInt64(&e.MaxDepth) {
		atomic.StoreInt64(&e.MaxDepth, d)
	}
	if w.Mon.Commits > 0 {
		atomic.AddInt64(&e.Commits, 1)
	}
	// replay determinism: the first 200 states and every 500th are rebuilt and must give the same key
	if n <= 200 || n%500 == 0 {
		if w2 := e.replay(path); w2 != nil && w2.Key() != key {
			e.Diverged.CompareAndSwap(nil, fmt.Sprintf("replaying %v gives a different canonical state", path))
		}
		atomic.AddInt64(&e.detCheck, 1)
	}
	if e.OnState != nil {
		e.OnState(w, path)
	}
	return true
}

func (e *Explorer) flush(w *World, path []string) {
	if len(w.Mon.Viol) == 0 || e.OnViolation == nil {
		return
	}
	e.mu.Lock()
	for _, v := range w.Mon.Viol {
		e.OnViolation(v, append([]string(nil), path...))
	}
	e.mu.Unlock()
	w.Mon.Viol = nil
}

func (e *Explorer) dfs(path []string, w *World, remaining int) {
	if e.expired() {
		return
	}
	e.flush(w, path)
	if w.Starved {
		atomic.AddInt64(&e.Starved, 1)
		return
	}
	if !e.visit(w, path, remaining) {
		return
	}
	evs := w.Enabled()
	if len(evs) == 0 {
		atomic.AddInt64(&e.Terminal, 1)
		return
	}
	def := w.Default()
	evs = orderEvents(evs, def)
	for i, ev := range evs {
		rem := remaining
		if e.Bound >= 0 && ev != def {
			if remaining == 0 || (e.Alt != nil && !e.Alt(ev)) {
				continue
			}
			rem = remaining - 1
		}
		w2 := w
		if i > 0 {
			if w2 = e.replay(path); w2 == nil {
				return
			}
		}
		child := append(append(make([]string, 0, len(path)+1), path...), ev)
		if !w2.Apply(ev) {
			e.Diverged.CompareAndSwap(nil, fmt.Sprintf("enabled event %q could not be applied after %v", ev, path))
			return
		}
		atomic.AddInt64(&e.Transitions, 1)
		e.dfs(child, w2, rem)
		if e.expired() {
			return
		}
	}
}

// orderEvents puts the default event first.
func orderEvents(evs []string, def string) []string {
	out := make([]string, 0, len(evs))
	for _, ev := range evs {
		if ev == def {
			out = append(out, ev)
		}
	}
	for _, ev := range evs {
		if ev != def {
			out = append(out, ev)
		}
	}
	return out
}

type job struct {
	path []string
	rem  int
}

// Run explores every execution with at most Bound deviations from the default schedule
// (all interleavings if Bound < 0). Work is sharded over the worker pool by the subtrees
// that branch off the first levels of the search tree.
func (e *Explorer) Run() {
	root := job{nil, e.Bound}
	if e.Bound < 0 {
		root.rem = 0
	}
	// expand breadth-first until there are enough independent subtrees
	frontier := []job{root}
	want := par.Workers() * 8
	for round := 0; round < 200 && len(frontier) < want && len(frontier) > 0; round++ {
		// expand the first job only along its default edge; its deviations become jobs
		j := frontier[0]
		frontier = frontier[1:]
		w := e.replay(j.path)
		if w == nil {
			return
		}
		e.flush(w, j.path)
		if !e.visit(w, j.path, j.rem) {
			continue
		}
		evs := w.Enabled()
		if len(evs) == 0 {
			atomic.AddInt64(&e.Terminal, 1)
			continue
		}
		def := w.Default()
		var next []job
		for _, ev := range orderEvents(evs, def) {
			rem := j.rem
			if e.Bound >= 0 && ev != def {
				if j.rem == 0 {
					continue
				}
				rem--
			}
			atomic.AddInt64(&e.Transitions, 1)
			next = append(next, job{append(append([]string(nil), j.path...), ev), rem})
		}
		// keep the default successor at the front so that the spine keeps unfolding
		frontier = append(next, frontier...)
	}
	par.Each(len(frontier), func(i int) {
		w := e.replay(frontier[i].path)
		if w == nil {
			return
		}
		e.dfs(frontier[i].path, w, frontier[i].rem)
	})
}

// DetChecks is the number of replay-determinism checks performed.
func (e *Explorer) DetChecks() int64 { return atomic.LoadInt64(&e.detCheck) }
