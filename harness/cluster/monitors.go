package cluster

import (
	"bytes"
	"crypto/sha256"
	"fmt"
	"sort"
	"strings"

	"github.com/relab/hotstuff"
	"github.com/relab/hotstuff/internal/proto/clientpb"
)

// Violation is one monitor finding.
type Violation struct {
	Prop string // property id
	Sig  string // class
	What string
}

type voteRec struct {
	view hotstuff.View
	hash hotstuff.Hash
}

type nodeSnap struct {
	view, hqc, hqcBlock, htc, committed hotstuff.View
	hqcHash                             hotstuff.Hash
	htcView                             hotstuff.View
	viewChanges, commits, executed      int
}

// Monitors evaluates the oracles of C01, C03, C06 and C07 on every transition.
type Monitors struct {
	w         *World
	Viol      []Violation
	votes     map[int][]voteRec
	toSigned  map[int]map[hotstuff.View]bool
	pending   []pendingSig
	snap      nodeSnap
	byBytes   map[string]*hotstuff.Block
	nBlocks   int
	Commits   int // total commit events observed on honest replicas
}

type pendingSig struct {
	slot int
	msg  []byte
}

func newMonitors(w *World) *Monitors {
	return &Monitors{w: w, votes: map[int][]voteRec{}, toSigned: map[int]map[hotstuff.View]bool{}, byBytes: map[string]*hotstuff.Block{}}
}

func (m *Monitors) report(prop, sig, what string) {
	for _, v := range m.Viol {
		if v.Prop == prop && v.Sig == sig {
			return
		}
	}
	m.Viol = append(m.Viol, Violation{prop, sig, what})
}

func (m *Monitors) q() int { return hotstuff.QuorumSize(m.w.Cfg.N) }

func (m *Monitors) take(n *SimNode) nodeSnap {
	s := nodeSnap{view: n.VS.View(), hqc: n.VS.HighQC().View(), htc: n.VS.HighTC().View(), committed: n.VS.CommittedBlock().View(),
		hqcHash: n.VS.HighQC().BlockHash(), viewChanges: len(n.ViewChanges), commits: len(n.Commits), executed: len(n.Executed)}
	if b, ok := m.w.Blocks[s.hqcHash]; ok {
		s.hqcBlock = b.View()
	}
	return s
}

func (m *Monitors) before(slot int) { m.snap = m.take(m.w.Nodes[slot]) }

func (m *Monitors) onSign(n *SimNode, msg []byte) {
	m.pending = append(m.pending, pendingSig{n.Slot, append([]byte(nil), msg...)})
}

func (m *Monitors) refreshBlocks() {
	if len(m.w.Blocks) == m.nBlocks {
		return
	}
	for _, b := range m.w.Blocks {
		m.byBytes[string(b.ToBytes())] = b
	}
	m.nBlocks = len(m.w.Blocks)
}

// realSigners returns the distinct configured replicas that really signed msg.
func (m *Monitors) realSigners(msg []byte) map[hotstuff.ID]bool {
	out := map[hotstuff.ID]bool{}
	for _, id := range m.w.Truth.Signers(msg) {
		if int(id) >= 1 && int(id) <= m.w.Cfg.N {
			out[id] = true
		}
	}
	return out
}

// qcBacked: the certificate's participants are distinct, really signed the block it names, and are a quorum.
func (m *Monitors) qcBacked(qc hotstuff.QuorumCert) (bool, string) {
	if qc.BlockHash() == hotstuff.GetGenesis().Hash() {
		return true, ""
	}
	b, ok := m.w.Blocks[qc.BlockHash()]
	if !ok {
		return false, "names an unknown block"
	}
	if qc.View() != b.View() {
		return false, fmt.Sprintf("claims view %d for a view-%d block", qc.View(), b.View())
	}
	if qc.Signature() == nil {
		return false, "has no signature"
	}
	real := m.realSigners(b.ToBytes())
	seen := map[hotstuff.ID]bool{}
	qc.Signature().Participants().ForEach(func(id hotstuff.ID) {
		if real[id] {
			seen[id] = true
		}
	})
	if len(seen) < m.q() {
		return false, fmt.Sprintf("is backed by %d real distinct votes %v, quorum %d", len(seen), idList(seen), m.q())
	}
	return true, ""
}

func idList(s map[hotstuff.ID]bool) []int {
	var l []int
	for id := range s {
		l = append(l, int(id))
	}
	sort.Ints(l)
	return l
}

// evidenceFor: some block of view >= v has a quorum of real votes, or some view >= v a quorum of real timeout signatures.
func (m *Monitors) evidenceFor(v hotstuff.View) bool {
	for _, b := range m.w.Blocks {
		if b.View() >= v && len(m.realSigners(b.ToBytes())) >= m.q() {
			return true
		}
	}
	maxV := v
	for _, n := range m.w.Nodes {
		if n.VS.View() > maxV {
			maxV = n.VS.View()
		}
	}
	for u := v; u <= maxV+60; u++ {
		if len(m.realSigners(u.ToBytes())) >= m.q() {
			return true
		}
	}
	return false
}

func (m *Monitors) after(slot int) {
	w := m.w
	n := w.Nodes[slot]
	m.refreshBlocks()
	ctx := fmt.Sprintf("replica %d (slot %d) on event %q", n.ID, slot, w.cur.label)
	// ---- C03: classify what was signed during this event
	for _, p := range m.pending {
		sn := w.Nodes[p.slot]
		if !sn.Honest {
			continue
		}
		if len(p.msg) == 8 {
			var v hotstuff.View
			for i := 7; i >= 0; i-- {
				v = v<<8 | hotstuff.View(p.msg[i])
			}
			if m.toSigned[p.slot] == nil {
				m.toSigned[p.slot] = map[hotstuff.View]bool{}
			}
			m.toSigned[p.slot][v] = true
			continue
		}
		b, ok := m.byBytes[string(p.msg)]
		if !ok {
			continue // per-signer timeout message of the aggregate rule
		}
		m.checkVote(sn, b, ctx)
	}
	m.pending = m.pending[:0]
	if !n.Honest {
		return
	}
	s0, s1 := m.snap, m.take(n)
	// ---- C07
	if s1.view < s0.view || s1.hqc < s0.hqc || s1.hqcBlock < s0.hqcBlock || s1.htc < s0.htc || s1.committed < s0.committed {
		m.report("C07", "a view or certified-state counter decreased", fmt.Sprintf("%s: view %d->%d, highQC view %d->%d (block view %d->%d), highTC %d->%d, committed %d->%d", ctx, s0.view, s1.view, s0.hqc, s1.hqc, s0.hqcBlock, s1.hqcBlock, s0.htc, s1.htc, s0.committed, s1.committed))
	}
	if d := int(s1.view - s0.view); d != s1.viewChanges-s0.viewChanges {
		m.report("C07", "view changes are not all signalled", fmt.Sprintf("%s: view %d->%d but %d ViewChangeEvents", ctx, s0.view, s1.view, s1.viewChanges-s0.viewChanges))
	} else {
		for i := 0; i < d; i++ {
			if e := n.ViewChanges[s0.viewChanges+i]; e.View != s0.view+hotstuff.View(i)+1 {
				m.report("C07", "view change events are not consecutive", fmt.Sprintf("%s: event %d announces view %d", ctx, i, e.View))
			}
		}
	}
	for v := s0.view; v < s1.view; v++ {
		if !m.evidenceFor(v) {
			m.report("C07", "left a view without evidence", fmt.Sprintf("%s: left view %d although no quorum of real votes (block of view >= %d) or real timeouts (view >= %d) exists", ctx, v, v, v))
		}
	}
	if s1.hqcHash != s0.hqcHash || s1.hqc != s0.hqc {
		if ok, why := m.qcBacked(n.VS.HighQC()); !ok {
			m.report("C07", "high QC updated to an unbacked certificate", fmt.Sprintf("%s: new high QC %s", ctx, why))
		}
	}
	if s1.htc != s0.htc {
		if len(m.realSigners(s1.htc.ToBytes())) < m.q() {
			m.report("C07", "high TC updated to an unbacked certificate", fmt.Sprintf("%s: high TC for view %d is not backed by a quorum of real timeout signatures", ctx, s1.htc))
		}
	}
	// ---- C01
	if s1.commits > s0.commits {
		m.Commits += s1.commits - s0.commits
		for i := s0.commits; i < s1.commits; i++ {
			b := n.Commits[i]
			prevHash, prevView := hotstuff.GetGenesis().Hash(), hotstuff.View(0)
			if i > 0 {
				prevHash, prevView = n.Commits[i-1].Hash(), n.Commits[i-1].View()
			}
			if b.Parent() != prevHash {
				m.report("C01", "committed block does not extend the previously committed block", fmt.Sprintf("%s: commit #%d (view %d) has parent %s, previous commit is %s", ctx, i, b.View(), b.Parent().SmallString(), prevHash.SmallString()))
			}
			if b.View() <= prevView {
				m.report("C01", "committed views do not increase", fmt.Sprintf("%s: commit #%d has view %d after view %d", ctx, i, b.View(), prevView))
			}
			for j := 0; j < i; j++ {
				if n.Commits[j].Hash() == b.Hash() {
					m.report("C01", "block committed twice", fmt.Sprintf("%s: commit #%d repeats commit #%d", ctx, i, j))
				}
			}
		}
		for _, o := range w.Nodes {
			if !o.Honest || o.Slot == slot {
				continue
			}
			k := min(len(o.Commits), len(n.Commits))
			for i := 0; i < k; i++ {
				if o.Commits[i].Hash() != n.Commits[i].Hash() {
					m.report("C01", "committed sequences of two honest replicas diverge", fmt.Sprintf("%s: position %d: replica %d committed the view-%d block %s, replica %d the view-%d block %s", ctx, i, n.ID, n.Commits[i].View(), n.Commits[i].Hash().SmallString(), o.ID, o.Commits[i].View(), o.Commits[i].Hash().SmallString()))
					break
				}
			}
		}
	}
	if len(n.Commits) > 0 && n.VS.CommittedBlock().Hash() != n.Commits[len(n.Commits)-1].Hash() {
		m.report("C01", "CommittedBlock differs from the last commit event", ctx)
	}
	// ---- C06
	m.checkExec(n, ctx)
}

func (m *Monitors) checkVote(n *SimNode, b *hotstuff.Block, ctx string) {
	w := m.w
	slot := n.Slot
	view := b.View()
	for _, v := range m.votes[slot] {
		if v.view >= view {
			if v.view == view && v.hash == b.Hash() {
				m.report("C03", "signed the same block twice", fmt.Sprintf("%s: second vote for the view-%d block", ctx, view))
			} else if v.view == view {
				m.report("C03", "voted for two blocks in one view", fmt.Sprintf("%s: votes for two different blocks of view %d", ctx, view))
			} else {
				m.report("C03", "vote views do not increase", fmt.Sprintf("%s: vote in view %d after a vote in view %d", ctx, view, v.view))
			}
		}
	}
	for tv := range m.toSigned[slot] {
		if view <= tv {
			m.report("C03", "voted in a view at or below a view it timed out in", fmt.Sprintf("%s: vote in view %d after signing a timeout for view %d", ctx, view, tv))
		}
	}
	m.votes[slot] = append(m.votes[slot], voteRec{view, b.Hash()})
	leader := n.Leader.GetLeader(view)
	if b.Proposer() != leader {
		m.report("C03", "voted for a block not proposed by the leader of its view", fmt.Sprintf("%s: view-%d block proposed by %d, leader is %d", ctx, view, b.Proposer(), leader))
	}
	if b.Proposer() != n.ID {
		// the proposal for this block must have been sent to this replica by the leader of its view
		// (it may have been handled earlier and deferred until a view change)
		fromLeader, fromOther := false, hotstuff.ID(0)
		for i := range w.Sent {
			if pm, ok := w.Sent[i].Payload.(hotstuff.ProposeMsg); ok && w.Sent[i].To == slot && pm.Block.Hash() == b.Hash() {
				if pm.ID == leader {
					fromLeader = true
				} else {
					fromOther = pm.ID
				}
			}
		}
		if !fromLeader {
			m.report("C03", "voted for a proposal that did not come from the leader", fmt.Sprintf("%s: proposal for the view-%d block was sent by %d, leader of that view is %d", ctx, view, fromOther, leader))
		}
	}
	qc := b.QuorumCert()
	if ok, why := m.qcBacked(qc); !ok {
		m.report("C03", "voted for a proposal whose certificate is not valid", fmt.Sprintf("%s: QC of the view-%d block %s", ctx, view, why))
	}
	if b.Parent() != qc.BlockHash() {
		m.report("C03", "voted for a block whose parent is not the certified block", fmt.Sprintf("%s: view-%d block has parent %s but its QC certifies %s", ctx, view, b.Parent().SmallString(), qc.BlockHash().SmallString()))
	}
	if qb, ok := w.Blocks[qc.BlockHash()]; ok && view <= qb.View() {
		m.report("C03", "voted for a block not above its certified block", fmt.Sprintf("%s: view %d <= certified view %d", ctx, view, qb.View()))
	}
}


// checkExec: the application digest is explained by executing the committed chain's commands in
// order exactly once; replicas are prefix-related.
func (m *Monitors) checkExec(n *SimNode, ctx string) {
	// ExecuteEvent per committed block, ancestor first
	if len(n.Executed) != len(n.Commits) {
		m.report("C06", "execute events do not match commit events", fmt.Sprintf("%s: %d ExecuteEvents, %d CommitEvents", ctx, len(n.Executed), len(n.Commits)))
		return
	}
	var chain []*clientpb.Command
	for i, b := range n.Commits {
		if !bytes.Equal(b.Commands().Marshal(), n.Executed[i].Marshal()) {
			m.report("C06", "execute event carries another batch than the committed block", fmt.Sprintf("%s: position %d", ctx, i))
		}
		chain = append(chain, b.Commands().GetCommands()...)
	}
	list, ok := explainExec(chain, n.CIO.CmdCount(), n.CIO.Hash().Sum(nil))
	if !ok {
		m.report("C06", "application state is not explained by executing the committed commands once, in order", fmt.Sprintf("%s: %d commands on the chain, application executed %d", ctx, len(chain), n.CIO.CmdCount()))
		return
	}
	seen := map[clientpb.MessageID]bool{}
	for _, c := range list {
		if seen[c.ID()] {
			m.report("C06", "a client command was executed twice", fmt.Sprintf("%s: command client=%d seq=%d", ctx, c.ClientID, c.SequenceNumber))
		}
		seen[c.ID()] = true
	}
	n.execList = list
	for _, o := range m.w.Nodes {
		if !o.Honest || o.Slot == n.Slot {
			continue
		}
		k := min(len(o.execList), len(list))
		for i := 0; i < k; i++ {
			if o.execList[i].ID() != list[i].ID() {
				m.report("C06", "executed command sequences of two honest replicas diverge", fmt.Sprintf("%s: position %d: replica %d executed %v, replica %d %v", ctx, i, n.ID, list[i].ID(), o.ID, o.execList[i].ID()))
				break
			}
		}
	}
}

// explainExec finds the executed subsequence: either "skip exact repeats" or "skip sequence numbers
// at or below the client's last executed one"; the candidate must reproduce count and digest.
func explainExec(chain []*clientpb.Command, count uint32, digest []byte) ([]*clientpb.Command, bool) {
	for rule := 0; rule < 2; rule++ {
		var list []*clientpb.Command
		h := sha256.New()
		exact := map[clientpb.MessageID]bool{}
		last := map[uint32]uint64{}
		for _, c := range chain {
			if rule == 0 {
				if exact[c.ID()] {
					continue
				}
			} else if l, ok := last[c.ClientID]; ok && l >= c.SequenceNumber {
				continue
			}
			exact[c.ID()] = true
			last[c.ClientID] = c.SequenceNumber
			h.Write(c.Data)
			list = append(list, c)
		}
		if uint32(len(list)) == count && bytes.Equal(h.Sum(nil), digest) {
			return list, true
		}
	}
	return nil, false
}

func (m *Monitors) key() string {
	var sb strings.Builder
	slots := make([]int, 0, len(m.votes))
	for s := range m.votes {
		slots = append(slots, s)
	}
	sort.Ints(slots)
	for _, s := range slots {
		fmt.Fprintf(&sb, "V%d:", s)
		for _, v := range m.votes[s] {
			fmt.Fprintf(&sb, "%d/%x,", v.view, v.hash[:4])
		}
	}
	slots = slots[:0]
	for s := range m.toSigned {
		slots = append(slots, s)
	}
	sort.Ints(slots)
	for _, s := range slots {
		var vs []int
		for v := range m.toSigned[s] {
			vs = append(vs, int(v))
		}
		sort.Ints(vs)
		fmt.Fprintf(&sb, "T%d:%v", s, vs)
	}
	// the ground truth of signatures is part of the state (C07's evidence oracle reads it)
	var sg []string
	for _, e := range m.w.Truth.Log {
		sg = append(sg, e.Tag)
	}
	sort.Strings(sg)
	sb.WriteString(strings.Join(sg, ","))
	return sb.String()
}

// ExplainExec is exported for the chain-level part of C06.
func ExplainExec(chain []*clientpb.Command, count uint32, digest []byte) ([]*clientpb.Command, bool) {
	return explainExec(chain, count, digest)
}
