// Package cluster is engine E1: a closed system of n real replicas plus a harness-owned
// network, timers and adversary, explored as a transition system whose transitions are
// "one real handler run to quiescence".
package cluster

import (
	"context"
	"crypto/sha256"
	"encoding/hex"
	"fmt"
	"sort"
	"strings"
	"time"

	"github.com/relab/hotstuff"
	"github.com/relab/hotstuff/core"
	"github.com/relab/hotstuff/internal/proto/clientpb"
	"github.com/relab/hotstuff/protocol/rules"
	"github.com/relab/hotstuff/security/crypto"
	"github.com/relab/hotstuff/zverif/dump"
	"github.com/relab/hotstuff/zverif/fix"
	"github.com/relab/hotstuff/zverif/node"
)

// Config describes one closed system.
type Config struct {
	N        int
	Rules    string
	Cache    uint
	Leader   func(hotstuff.View) hotstuff.ID // nil = round robin (production object)
	Horizon  hotstuff.View                   // events for views above the horizon are not enabled
	Timeouts int                             // budget of local timer expiries
	Dups     int                             // budget of duplicate deliveries
	Byz      int                             // budget of crafted messages
	Twin     hotstuff.ID                     // replica id that runs as an equivocating twin pair (0 = none)
	Crafter  hotstuff.ID                     // replica id that is replaced by a scripted adversary (0 = none)
	Commands int                             // client commands preloaded at every replica
	Crashed  map[hotstuff.ID]bool            // replicas that never receive anything
	Drops    bool                            // message loss is an explicit event (a deviation from the FIFO schedule)
	// Scenario is a Twins-style per-view schedule: the leader of the view and a two-block partition
	// of the node slots (bit i of Mask set = slot i is in block A). While its sender is in one of
	// these views a message only reaches receivers in the sender's block; later views are healed
	// and led round-robin.
	Scenario []ScView
}

// ScView is one view of a scenario.
type ScView struct {
	Leader hotstuff.ID
	Mask   uint32
}

// connected reports whether a message from slot a (currently in view v) may reach slot b.
func (c *Config) connected(v hotstuff.View, a, b int) bool {
	if v < 1 || int(v) > len(c.Scenario) {
		return true
	}
	m := c.Scenario[v-1].Mask
	return (m>>uint(a))&1 == (m>>uint(b))&1
}

// Msg is one in-flight message.
type Msg struct {
	From    int // node slot
	To      int // node slot
	Payload any // hotstuff.ProposeMsg | VoteMsg | NewViewMsg | TimeoutMsg
	View    hotstuff.View
	Key     string
	Seq     int // global send order (the default schedule is FIFO)
}

// SimNode is one node slot (a replica, or one of the two twins of a replica).
type SimNode struct {
	*node.Node
	Slot   int
	Honest bool // counts as an honest replica for the monitors (twins do not)
	w      *World
	execList []*clientpb.Command // executed commands as reconstructed by the C06 monitor
}

// World is the global state.
type World struct {
	Cfg      Config
	Nodes    []*SimNode
	ByID     map[hotstuff.ID][]int
	Inflight []Msg
	Sent     []Msg // every message ever put on the wire (the adversary sees all of it)
	Truth    *fix.Truth
	Used     struct{ Timeouts, Dups, Byz int }
	Blocks   map[hotstuff.Hash]*hotstuff.Block // every block ever seen on the wire or created
	Mon      *Monitors
	Trace    []string
	// cur is the event being executed (for monitors that need the context of a signing event)
	cur struct {
		label string
		slot  int
		msg   *Msg
	}
	crafter *crafter
	seq     int
	fired   map[int]int // local timer expiries per slot
	// firedTimer is the view timer (identity) that fired last at each slot: a one-shot timer fires once
	firedTimer map[int]*time.Timer
	// Starved is set when a handler had to be released by the watchdog (command stock exhausted)
	Starved bool
	// Drops enables the loss deviation (an in-flight message is discarded)
}

// simSender is the core.Sender of one node slot.
type simSender struct {
	w    *World
	slot int
}

func (s *simSender) id() hotstuff.ID { return s.w.Nodes[s.slot].ID }

func (s *simSender) post(to hotstuff.ID, payload any, view hotstuff.View) {
	w := s.w
	sv := w.Nodes[s.slot].VS.View()
	for _, slot := range w.ByID[to] {
		if slot == s.slot {
			continue
		}
		if !w.Cfg.connected(sv, s.slot, slot) {
			continue // lost in the partition of the sender's current view
		}
		w.addInflight(Msg{From: s.slot, To: slot, Payload: payload, View: view})
	}
}

func (s *simSender) broadcast(payload any, view hotstuff.View) {
	w := s.w
	ids := make([]int, 0, len(w.ByID))
	for id := range w.ByID {
		ids = append(ids, int(id))
	}
	sort.Ints(ids)
	for _, id := range ids {
		if hotstuff.ID(id) == s.id() {
			continue // not to self or twin
		}
		s.post(hotstuff.ID(id), payload, view)
	}
}

func (s *simSender) NewView(id hotstuff.ID, si hotstuff.SyncInfo) error {
	s.post(id, hotstuff.NewViewMsg{ID: s.id(), SyncInfo: si, FromNetwork: true}, siView(si))
	return nil
}
func (s *simSender) Vote(id hotstuff.ID, cert hotstuff.PartialCert) error {
	v := hotstuff.View(0)
	if b, ok := s.w.Blocks[cert.BlockHash()]; ok {
		v = b.View()
	}
	s.post(id, hotstuff.VoteMsg{ID: s.id(), PartialCert: cert}, v)
	return nil
}
func (s *simSender) Timeout(msg hotstuff.TimeoutMsg) { s.broadcast(msg, msg.View) }
func (s *simSender) Propose(p *hotstuff.ProposeMsg) {
	s.w.Blocks[p.Block.Hash()] = p.Block
	s.broadcast(*p, p.Block.View())
}
func (s *simSender) RequestBlock(_ context.Context, hash hotstuff.Hash) (*hotstuff.Block, bool) {
	sv := s.w.Nodes[s.slot].VS.View()
	for _, n := range s.w.Nodes {
		if n.Slot == s.slot || !s.w.Cfg.connected(sv, s.slot, n.Slot) {
			continue
		}
		if b, ok := n.Chain.LocalGet(hash); ok {
			return b, true
		}
	}
	if s.w.crafter != nil {
		if b, ok := s.w.crafter.blocks[hash]; ok {
			return b, true
		}
	}
	return nil, false
}
func (s *simSender) Sub([]hotstuff.ID) (core.Sender, error) { return s, nil }

func siView(si hotstuff.SyncInfo) hotstuff.View {
	var v hotstuff.View
	if qc, ok := si.QC(); ok && qc.View() > v {
		v = qc.View()
	}
	if tc, ok := si.TC(); ok && tc.View() > v {
		v = tc.View()
	}
	if a, ok := si.AggQC(); ok && a.View() > v {
		v = a.View()
	}
	return v + 1
}

var msgDump = &dump.Options{}

func msgKey(m *Msg) string {
	h := sha256.Sum256([]byte(dump.String(m.Payload, msgDump)))
	kind := strings.TrimPrefix(fmt.Sprintf("%T", m.Payload), "hotstuff.")
	return fmt.Sprintf("%s %d>%d v%d %s", kind, m.From, m.To, m.View, hex.EncodeToString(h[:5]))
}

func (w *World) addInflight(m Msg) {
	m.Key = msgKey(&m)
	w.seq++
	m.Seq = w.seq
	w.Inflight = append(w.Inflight, m)
	w.Sent = append(w.Sent, m)
}

func (w *World) timerCount(slot int) int { return w.fired[slot] }

// timerArmed reports whether the replica's one-shot view timer can still fire: the timer that fired
// last must have been replaced by a newly armed one (startTimeoutTimer) since.
func (w *World) timerArmed(n *SimNode) bool {
	return w.firedTimer[n.Slot] == nil || w.firedTimer[n.Slot] != n.Sync.VerifTimer()
}

// Default is the event the lock-step FIFO schedule takes next: deliver the oldest deliverable
// message; if nothing is deliverable, fire the local timer of the lowest-numbered replica that
// is still below the horizon. "" if nothing is enabled.
func (w *World) Default() string {
	best := -1
	for i := range w.Inflight {
		m := &w.Inflight[i]
		if m.View > w.Cfg.Horizon || w.Cfg.Crashed[w.Nodes[m.To].ID] {
			continue
		}
		if best < 0 || m.Seq < w.Inflight[best].Seq {
			best = i
		}
	}
	if best >= 0 {
		return "D " + w.Inflight[best].Key
	}
	if w.Used.Timeouts < w.Cfg.Timeouts {
		// timers fire at quiescence only, at every live replica in turn: the one whose timer has
		// fired least often goes first (ties: lowest slot)
		slot := -1
		for _, n := range w.Nodes {
			if n.VS.View() <= w.Cfg.Horizon && !w.Cfg.Crashed[n.ID] && w.timerArmed(n) && (slot < 0 || w.timerCount(n.Slot) < w.timerCount(slot)) {
				slot = n.Slot
			}
		}
		if slot >= 0 {
			return fmt.Sprintf("T %d", slot)
		}
	}
	return ""
}

// New builds the system and lets the leader of view 1 make its first proposal (as
// Synchronizer.Start / twins.Network.run do).
func New(cfg Config) *World {
	if cfg.Commands == 0 {
		cfg.Commands = 16 // a leader that finds its command cache empty blocks inside the handler
	}
	w := &World{Cfg: cfg, ByID: map[hotstuff.ID][]int{}, Truth: fix.NewTruth(), Blocks: map[hotstuff.Hash]*hotstuff.Block{}}
	w.Blocks[hotstuff.GetGenesis().Hash()] = hotstuff.GetGenesis()
	w.Mon = newMonitors(w)
	leader := cfg.Leader
	if leader == nil && len(cfg.Scenario) > 0 {
		sc, n := cfg.Scenario, hotstuff.View(cfg.N)
		leader = func(v hotstuff.View) hotstuff.ID {
			if v >= 1 && int(v) <= len(sc) {
				return sc[v-1].Leader
			}
			return hotstuff.ID(v%n + 1)
		}
	}
	mk := func(id hotstuff.ID, honest bool, client uint32) {
		slot := len(w.Nodes)
		snd := &simSender{w: w, slot: slot}
		o := node.Opts{ID: id, N: cfg.N, Scheme: crypto.NameEDDSA, Rules: cfg.Rules, Cache: cfg.Cache, Sender: snd, Truth: w.Truth}
		if leader != nil {
			o.Leader = node.LeaderFunc(leader)
		} else {
			o.RoundRobin = true
		}
		n := node.New(o)
		sn := &SimNode{Node: n, Slot: slot, Honest: honest, w: w}
		n.Rec.OnSign = func(_ hotstuff.ID, msg []byte) { w.Mon.onSign(sn, msg) }
		w.Nodes = append(w.Nodes, sn)
		w.ByID[id] = append(w.ByID[id], slot)
		n.StockCommands(client, 1, uint64(cfg.Commands))
	}
	for i := 1; i <= cfg.N; i++ {
		id := hotstuff.ID(i)
		switch {
		case id == cfg.Crafter:
			// no node: the adversary holds this replica's key
		case id == cfg.Twin:
			mk(id, false, 1)
			mk(id, false, 2) // the twin holds other client commands, so twins really equivocate
		default:
			mk(id, true, 1)
		}
	}
	var nodes []*node.Node
	for _, n := range w.Nodes {
		nodes = append(nodes, n.Node)
	}
	for _, n := range w.Nodes {
		n.AddPeers(nodes)
		if cfg.Crafter != 0 {
			n.Cfg.AddReplica(&hotstuff.ReplicaInfo{ID: cfg.Crafter, PubKey: fix.Key(crypto.NameEDDSA, cfg.Crafter).Public()})
		}
	}
	if cfg.Crafter != 0 {
		w.crafter = newCrafter(w)
	}
	// initial proposal(s)
	for _, n := range w.Nodes {
		if n.Leader.GetLeader(1) == n.ID {
			w.begin("init", n.Slot, nil)
			p, err := n.Prop.CreateProposal(n.VS.SyncInfo())
			if err == nil {
				_ = n.Prop.Propose(&p)
			}
			n.Drain()
			w.end()
		}
	}
	return w
}

// guard runs one handler invocation. A handler that blocks (a leader waiting for client commands
// after the stock ran out) is released by a watchdog through the loop's timeout context; the
// world is then marked Starved and not explored further (a cap, never a verdict).
func (w *World) guard(n *SimNode, f func()) {
	var t *time.Timer
	t = time.AfterFunc(10*time.Second, func() {
		w.Starved = true
		n.Loop.AddEvent(hotstuff.TimeoutEvent{View: 0}) // cancels the handler's timeout context
		t.Reset(time.Second)
	})
	f()
	t.Stop()
}

func (w *World) begin(label string, slot int, m *Msg) {
	w.cur.label, w.cur.slot, w.cur.msg = label, slot, m
	w.Mon.before(slot)
}

func (w *World) end() {
	w.Mon.after(w.cur.slot)
	w.cur.msg = nil
}

// Enabled lists the labels of all enabled events in canonical order.
func (w *World) Enabled() []string {
	var evs []string
	seen := map[string]bool{}
	for i := range w.Inflight {
		m := &w.Inflight[i]
		if m.View > w.Cfg.Horizon || w.Cfg.Crashed[w.Nodes[m.To].ID] {
			continue
		}
		if !seen[m.Key] {
			seen[m.Key] = true
			evs = append(evs, "D "+m.Key)
			if w.Used.Dups < w.Cfg.Dups {
				evs = append(evs, "U "+m.Key)
			}
			if w.Cfg.Drops {
				evs = append(evs, "X "+m.Key)
			}
		}
	}
	if w.Used.Timeouts < w.Cfg.Timeouts {
		for _, n := range w.Nodes {
			if n.VS.View() <= w.Cfg.Horizon && !w.Cfg.Crashed[n.ID] && w.timerArmed(n) {
				evs = append(evs, fmt.Sprintf("T %d", n.Slot))
			}
		}
	}
	if w.crafter != nil && w.Used.Byz < w.Cfg.Byz {
		evs = append(evs, w.crafter.menu()...)
	}
	sort.Strings(evs)
	return evs
}

// Apply executes one event by label; ok=false if it is not enabled (a replay divergence).
func (w *World) Apply(label string) bool {
	w.Trace = append(w.Trace, label)
	switch label[0] {
	case 'D', 'U':
		key := label[2:]
		for i := range w.Inflight {
			if w.Inflight[i].Key == key {
				m := w.Inflight[i]
				if label[0] == 'D' {
					w.Inflight = append(w.Inflight[:i:i], w.Inflight[i+1:]...)
				} else {
					w.Used.Dups++
				}
				n := w.Nodes[m.To]
				w.begin(label, m.To, &m)
				w.guard(n, func() {
					n.Loop.AddEvent(m.Payload)
					n.Drain()
				})
				w.end()
				return true
			}
		}
		return false
	case 'X':
		key := label[2:]
		for i := range w.Inflight {
			if w.Inflight[i].Key == key {
				w.Inflight = append(w.Inflight[:i:i], w.Inflight[i+1:]...)
				return true
			}
		}
		return false
	case 'T':
		var slot int
		fmt.Sscanf(label, "T %d", &slot)
		if slot >= len(w.Nodes) {
			return false
		}
		n := w.Nodes[slot]
		if !w.timerArmed(n) {
			return false
		}
		w.Used.Timeouts++
		if w.fired == nil {
			w.fired = map[int]int{}
		}
		w.fired[slot]++
		if w.firedTimer == nil {
			w.firedTimer = map[int]*time.Timer{}
		}
		w.firedTimer[slot] = n.Sync.VerifTimer()
		w.begin(label, slot, nil)
		w.guard(n, func() {
			n.Loop.AddEvent(hotstuff.TimeoutEvent{View: n.VS.View()})
			n.Drain()
		})
		w.end()
		return true
	case 'B':
		if w.crafter == nil {
			return false
		}
		w.Used.Byz++
		return w.crafter.apply(label)
	}
	return false
}

var nodeDump = &dump.Options{}

// nodeState is the canonical local state of one replica: the protocol-relevant fields of
// every component (whitelisted by name; cross references between components are left out).
func nodeState(n *node.Node) string {
	var sb strings.Builder
	sb.WriteString(dump.Fields(n.VS, nodeDump, "highTC", "highQC", "view", "committedBlock"))
	sb.WriteString("|R:" + dump.Fields(n.Rules, nodeDump, "bLock", "locked"))
	sb.WriteString("|V:" + dump.Fields(n.Voter, nodeDump, "lastVotedView"))
	sb.WriteString("|P:" + dump.Fields(n.Prop, nodeDump, "lastProposed"))
	sb.WriteString("|S:" + dump.Fields(n.Sync, nodeDump, "lastTimeout", "timeouts"))
	sb.WriteString("|M:" + dump.Fields(n.VM, nodeDump, "verifiedVotes"))
	sb.WriteString("|L:" + dump.Fields(n.Loop, nodeDump, "waitingEvents"))
	sb.WriteString("|C:" + dump.Fields(n.Chain, nodeDump, "pruneHeight", "blocks", "blockAtHeight"))
	sb.WriteString("|Q:" + dump.Fields(n.Cmds, nodeDump, "clientSeqNumbers", "cache", "ready"))
	sb.WriteString("|I:" + dump.Fields(n.CIO, nodeDump, "cmdCount", "lastExecutedSeqNum", "hash"))
	return sb.String()
}

// Key is the canonical global state.
func (w *World) Key() string {
	h := sha256.New()
	for _, n := range w.Nodes {
		fmt.Fprintf(h, "N%d:", n.Slot)
		h.Write([]byte(nodeState(n.Node)))
	}
	keys := make([]string, len(w.Inflight))
	for i := range w.Inflight {
		keys[i] = w.Inflight[i].Key
	}
	sort.Strings(keys)
	var unarmed []int
	for _, n := range w.Nodes {
		if !w.timerArmed(n) {
			unarmed = append(unarmed, n.Slot)
		}
	}
	fmt.Fprintf(h, "|F%v|B%d,%d,%d|%v|U%v|", keys, w.Used.Timeouts, w.Used.Dups, w.Used.Byz, w.fired, unarmed)
	h.Write([]byte(w.Mon.key()))
	if w.crafter != nil {
		h.Write([]byte(w.crafter.key()))
	}
	return hex.EncodeToString(h.Sum(nil)[:16])
}

// RulesNames lists the three rulesets.
var RulesNames = []string{rules.NameChainedHotStuff, rules.NameSimpleHotStuff, rules.NameFastHotStuff}
