package cluster

import "github.com/relab/hotstuff"

// crafter is the scripted Byzantine participant (filled in by crafter_menu.go).
type crafter struct {
	w      *World
	blocks map[hotstuff.Hash]*hotstuff.Block
}

func newCrafter(w *World) *crafter { return &crafter{w: w, blocks: map[hotstuff.Hash]*hotstuff.Block{}} }
func (c *crafter) menu() []string   { return nil }
func (c *crafter) apply(string) bool { return false }
func (c *crafter) key() string      { return "" }
