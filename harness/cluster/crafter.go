package cluster

import (
	"fmt"
	"sort"
	"strings"

	"github.com/relab/hotstuff"
	"github.com/relab/hotstuff/core"
	"github.com/relab/hotstuff/security/crypto"
	"github.com/relab/hotstuff/zverif/fix"
)

// crafter is the scripted Byzantine participant: it holds the key of replica cfg.Crafter,
// sees every message ever sent, and offers a menu of crafted messages (simplest first).
type crafter struct {
	w      *World
	id     hotstuff.ID
	base   crypto.Base // signing primitive of the Byzantine replica (recorded in the ground truth)
	blocks map[hotstuff.Hash]*hotstuff.Block
	done   map[string]bool // menu items already used (each is offered once)
	items  map[string]func()
}

func newCrafter(w *World) *crafter {
	id := w.Cfg.Crafter
	cfg := core.NewRuntimeConfig(id, fix.Key(crypto.NameEDDSA, id))
	base, err := crypto.New(cfg, crypto.NameEDDSA)
	if err != nil {
		panic(err)
	}
	return &crafter{w: w, id: id, base: &fix.Recorder{Base: base, ID: id, Truth: w.Truth}, blocks: map[hotstuff.Hash]*hotstuff.Block{}, done: map[string]bool{}}
}

func (c *crafter) sign(msg []byte) hotstuff.QuorumSignature {
	s, err := c.base.Sign(msg)
	if err != nil {
		panic(err)
	}
	return s
}

func (c *crafter) q() int { return hotstuff.QuorumSize(c.w.Cfg.N) }

// seenVotes returns the single-signer vote signatures seen on the wire for block b, by signer.
func (c *crafter) seenVotes(b *hotstuff.Block) map[hotstuff.ID]hotstuff.QuorumSignature {
	out := map[hotstuff.ID]hotstuff.QuorumSignature{}
	for i := range c.w.Sent {
		if v, ok := c.w.Sent[i].Payload.(hotstuff.VoteMsg); ok && v.PartialCert.BlockHash() == b.Hash() && v.PartialCert.Signature() != nil {
			out[v.PartialCert.Signer()] = v.PartialCert.Signature()
		}
	}
	return out
}

// realQC assembles a certificate for b from the votes seen plus the adversary's own signature.
func (c *crafter) realQC(b *hotstuff.Block) (hotstuff.QuorumCert, bool) {
	if b.Hash() == hotstuff.GetGenesis().Hash() {
		return hotstuff.NewQuorumCert(nil, 0, b.Hash()), true
	}
	votes := c.seenVotes(b)
	delete(votes, c.id)
	ids := make([]int, 0, len(votes))
	for id := range votes {
		ids = append(ids, int(id))
	}
	sort.Ints(ids)
	sigs := []hotstuff.QuorumSignature{c.sign(b.ToBytes())}
	for _, id := range ids {
		if len(sigs) == c.q() {
			break
		}
		sigs = append(sigs, votes[hotstuff.ID(id)])
	}
	if len(sigs) < c.q() {
		return hotstuff.QuorumCert{}, false
	}
	s, err := c.base.Combine(sigs...)
	if err != nil {
		return hotstuff.QuorumCert{}, false
	}
	return hotstuff.NewQuorumCert(s, b.View(), b.Hash()), true
}

// knownQCs lists certificates that appeared on the wire (in proposals, new-view and timeout messages).
func (c *crafter) knownQCs() []hotstuff.QuorumCert {
	seen := map[hotstuff.Hash]hotstuff.QuorumCert{}
	add := func(qc hotstuff.QuorumCert) {
		if qc.Signature() != nil || qc.BlockHash() == hotstuff.GetGenesis().Hash() {
			seen[qc.BlockHash()] = qc
		}
	}
	for i := range c.w.Sent {
		switch m := c.w.Sent[i].Payload.(type) {
		case hotstuff.ProposeMsg:
			add(m.Block.QuorumCert())
		case hotstuff.NewViewMsg:
			if qc, ok := m.SyncInfo.QC(); ok {
				add(qc)
			}
		case hotstuff.TimeoutMsg:
			if qc, ok := m.SyncInfo.QC(); ok {
				add(qc)
			}
		}
	}
	var out []hotstuff.QuorumCert
	for _, qc := range seen {
		out = append(out, qc)
	}
	sort.Slice(out, func(i, j int) bool {
		if out[i].View() != out[j].View() {
			return out[i].View() > out[j].View()
		}
		return out[i].BlockHash().String() < out[j].BlockHash().String()
	})
	return out
}

func (c *crafter) maxView() hotstuff.View {
	var v hotstuff.View
	for _, n := range c.w.Nodes {
		if n.VS.View() > v {
			v = n.VS.View()
		}
	}
	return v
}

func (c *crafter) honestIDs() []hotstuff.ID {
	var ids []hotstuff.ID
	seen := map[hotstuff.ID]bool{}
	for _, n := range c.w.Nodes {
		if !seen[n.ID] {
			seen[n.ID] = true
			ids = append(ids, n.ID)
		}
	}
	return ids
}

// send posts a crafted message from the Byzantine replica to every node slot of the given ids.
func (c *crafter) send(to []hotstuff.ID, payload any, view hotstuff.View) {
	for _, id := range to {
		for _, slot := range c.w.ByID[id] {
			c.w.addInflight(Msg{From: -1, To: slot, Payload: payload, View: view})
		}
	}
}

func short(h hotstuff.Hash) string { return fmt.Sprintf("%x", h[:3]) }

// build computes the current menu.
func (c *crafter) build() {
	w := c.w
	c.items = map[string]func(){}
	add := func(label string, f func()) {
		label = "B " + label
		if !c.done[label] {
			c.items[label] = f
		}
	}
	all := c.honestIDs()
	leaderOf := func(v hotstuff.View) hotstuff.ID { return w.Nodes[0].Leader.GetLeader(v) }
	mv := c.maxView()
	qcs := c.knownQCs()
	// candidate certificates: the two newest known ones, certificates the adversary can assemble
	// itself for the newest blocks, and genesis
	// certificates are only described here; everything that needs the adversary's signature is
	// produced when the item is applied (building the menu must not touch the ground truth)
	type cand struct {
		name string
		hash hotstuff.Hash
		view hotstuff.View
		mk   func() hotstuff.QuorumCert
	}
	var cands []cand
	for i, qc := range qcs {
		if i < 2 {
			qc := qc
			cands = append(cands, cand{fmt.Sprintf("known(%s,v%d)", short(qc.BlockHash()), qc.View()), qc.BlockHash(), qc.View(), func() hotstuff.QuorumCert { return qc }})
		}
	}
	var newest []*hotstuff.Block
	for _, b := range w.Blocks {
		if b.View()+2 >= mv && b.View() > 0 {
			newest = append(newest, b)
		}
	}
	sort.Slice(newest, func(i, j int) bool {
		if newest[i].View() != newest[j].View() {
			return newest[i].View() > newest[j].View()
		}
		return newest[i].Hash().String() < newest[j].Hash().String()
	})
	if len(newest) > 3 {
		newest = newest[:3]
	}
	for _, b := range newest {
		b := b
		others := c.seenVotes(b)
		delete(others, c.id)
		if len(others) >= c.q()-1 {
			dup := false
			for _, cd := range cands {
				if cd.hash == b.Hash() {
					dup = true
				}
			}
			if !dup {
				cands = append(cands, cand{fmt.Sprintf("assembled(%s,v%d)", short(b.Hash()), b.View()), b.Hash(), b.View(), func() hotstuff.QuorumCert { qc, _ := c.realQC(b); return qc }})
			}
		}
	}
	gen := hotstuff.NewQuorumCert(nil, 0, hotstuff.GetGenesis().Hash())
	cands = append(cands, cand{"genesis", gen.BlockHash(), 0, func() hotstuff.QuorumCert { return gen }})
	views := []hotstuff.View{mv, mv + 1}
	propose := func(label string, view hotstuff.View, parent hotstuff.Hash, mk func() hotstuff.QuorumCert, cmd uint64) {
		add(label, func() {
			b := hotstuff.NewBlock(parent, mk(), fix.Batch(fix.Cmd(7, cmd)), view, c.id)
			c.blocks[b.Hash()] = b
			w.Blocks[b.Hash()] = b
			c.send(all, hotstuff.ProposeMsg{ID: c.id, Block: b}, view)
		})
	}
	for _, v := range views {
		if v > w.Cfg.Horizon {
			continue
		}
		for _, cd := range cands {
			if qb, ok := w.Blocks[cd.hash]; ok && qb.View() > v {
				continue // (a certificate of the same view is offered: the block would not be above its certified block)
			}
			for cmd := uint64(1); cmd <= 2; cmd++ {
				propose(fmt.Sprintf("propose v%d qc=%s cmd%d", v, cd.name, cmd), v, cd.hash, cd.mk, cmd)
			}
		}
		if len(cands) > 0 && len(newest) > 0 {
			// parent different from the certified block
			cd := cands[0]
			for _, nb := range newest {
				if nb.Hash() != cd.hash && nb.View() < v {
					propose(fmt.Sprintf("propose v%d qc=%s parent=%s(other)", v, cd.name, short(nb.Hash())), v, nb.Hash(), cd.mk, 1)
					break
				}
			}
			if cd.hash != hotstuff.GetGenesis().Hash() {
				propose(fmt.Sprintf("propose v%d qc=%s parent=genesis(other)", v, cd.name), v, hotstuff.GetGenesis().Hash(), cd.mk, 1)
			}
		}
		// forged certificates over the newest block
		if len(newest) > 0 {
			nb := newest[0]
			if nb.View() < v {
				propose(fmt.Sprintf("propose v%d qc=own-signature-repeated(%s)", v, short(nb.Hash())), v, nb.Hash(), func() hotstuff.QuorumCert {
					return hotstuff.NewQuorumCert(repeatSig(c.sign(nb.ToBytes()), c.id, c.q()), nb.View(), nb.Hash())
				}, 1)
				votes := c.seenVotes(nb)
				delete(votes, c.id)
				if len(votes) > 0 {
					propose(fmt.Sprintf("propose v%d qc=sub-quorum(%s)", v, short(nb.Hash())), v, nb.Hash(), func() hotstuff.QuorumCert {
						ids := make([]int, 0, len(votes))
						for id := range votes {
							ids = append(ids, int(id))
						}
						sort.Ints(ids)
						sub, _ := c.base.Combine(c.sign(nb.ToBytes()), votes[hotstuff.ID(ids[0])])
						return hotstuff.NewQuorumCert(sub, nb.View(), nb.Hash())
					}, 1)
				}
				if len(qcs) > 0 && qcs[0].Signature() != nil {
					q0 := qcs[0]
					propose(fmt.Sprintf("propose v%d qc=relabelled-view(%s)", v, short(q0.BlockHash())), v, q0.BlockHash(), func() hotstuff.QuorumCert {
						return hotstuff.NewQuorumCert(q0.Signature(), v-1, q0.BlockHash())
					}, 1)
				}
			}
		}
	}
	// votes (also for conflicting blocks)
	for _, nb := range newest {
		nb := nb
		add(fmt.Sprintf("vote %s(v%d)", short(nb.Hash()), nb.View()), func() {
			pc := hotstuff.NewPartialCert(c.sign(nb.ToBytes()), nb.Hash())
			c.send([]hotstuff.ID{leaderOf(nb.View() + 1)}, hotstuff.VoteMsg{ID: c.id, PartialCert: pc}, nb.View())
		})
	}
	// timeouts and new-view messages
	bestC := cands[0]
	si := func() hotstuff.SyncInfo { return hotstuff.NewSyncInfoWith(bestC.mk()) }
	for _, v := range []hotstuff.View{mv, mv + 1, mv + 50} {
		v := v
		if v > w.Cfg.Horizon && v != mv+50 {
			continue
		}
		add(fmt.Sprintf("timeout v%d", v), func() {
			m := hotstuff.TimeoutMsg{ID: c.id, View: v, SyncInfo: si(), ViewSignature: c.sign(v.ToBytes())}
			m.MsgSignature = c.sign(m.ToBytes())
			c.send(all, m, min(v, w.Cfg.Horizon))
		})
	}
	if bestC.hash != hotstuff.GetGenesis().Hash() {
		add(fmt.Sprintf("newview relabelled-qc(v%d as v%d)", bestC.view, mv+5), func() {
			best := bestC.mk()
			s := hotstuff.NewSyncInfoWith(hotstuff.NewQuorumCert(best.Signature(), mv+5, best.BlockHash()))
			c.send(all, hotstuff.NewViewMsg{ID: c.id, SyncInfo: s, FromNetwork: true}, mv)
		})
	}
	add(fmt.Sprintf("newview forged-tc(v%d)", mv), func() {
		tc := hotstuff.NewTimeoutCert(repeatSig(c.sign(mv.ToBytes()), c.id, c.q()), mv)
		s := hotstuff.NewSyncInfoWith(tc)
		c.send(all, hotstuff.NewViewMsg{ID: c.id, SyncInfo: s, FromNetwork: true}, mv)
	})
	// a real timeout certificate seen on the wire, combined with a forged QC that is labelled
	// with a view below the TC's (a receiver that skips QC verification in that case adopts it)
	var realTC *hotstuff.TimeoutCert
	for i := range w.Sent {
		var si hotstuff.SyncInfo
		switch m := w.Sent[i].Payload.(type) {
		case hotstuff.NewViewMsg:
			si = m.SyncInfo
		case hotstuff.TimeoutMsg:
			si = m.SyncInfo
		default:
			continue
		}
		if tc, ok := si.TC(); ok && tc.Signature() != nil && (realTC == nil || tc.View() > realTC.View()) {
			t := tc
			realTC = &t
		}
	}
	if realTC != nil && len(newest) > 0 {
		tc := *realTC
		for _, nb := range newest[:min(2, len(newest))] {
			nb := nb
			for _, label := range []hotstuff.View{0, nb.View()} {
				label := label
				if label >= tc.View() {
					continue
				}
				add(fmt.Sprintf("newview tc=seen(v%d) qc=own-signature-repeated(%s) labelled v%d", tc.View(), short(nb.Hash()), label), func() {
					s := hotstuff.NewSyncInfoWith(tc)
					s.SetQC(hotstuff.NewQuorumCert(repeatSig(c.sign(nb.ToBytes()), c.id, c.q()), label, nb.Hash()))
					c.send(all, hotstuff.NewViewMsg{ID: c.id, SyncInfo: s, FromNetwork: true}, min(mv, w.Cfg.Horizon))
				})
			}
		}
		add(fmt.Sprintf("timeout v%d tc=seen(v%d) qc=own-signature-repeated", mv, tc.View()), func() {
			nb := newest[0]
			s := hotstuff.NewSyncInfoWith(tc)
			s.SetQC(hotstuff.NewQuorumCert(repeatSig(c.sign(nb.ToBytes()), c.id, c.q()), 0, nb.Hash()))
			m := hotstuff.TimeoutMsg{ID: c.id, View: mv, SyncInfo: s, ViewSignature: c.sign(mv.ToBytes())}
			m.MsgSignature = c.sign(m.ToBytes())
			c.send(all, m, min(mv, w.Cfg.Horizon))
		})
	}
	add(fmt.Sprintf("newview qc=%s", cands[0].name), func() {
		c.send(all, hotstuff.NewViewMsg{ID: c.id, SyncInfo: si(), FromNetwork: true}, mv)
	})
}

// repeatSig builds a multi-signature holding the same signature k times.
func repeatSig(sig hotstuff.QuorumSignature, id hotstuff.ID, k int) hotstuff.QuorumSignature {
	s := make([]*crypto.EDDSASignature, k)
	for i := range s {
		s[i] = crypto.RestoreEDDSASignature(sig.ToBytes(), id)
	}
	return crypto.NewMulti(s...)
}

func (c *crafter) menu() []string {
	c.build()
	out := make([]string, 0, len(c.items))
	for l := range c.items {
		out = append(out, l)
	}
	sort.Strings(out)
	return out
}

func (c *crafter) apply(label string) bool {
	c.build()
	f, ok := c.items[label]
	if !ok {
		return false
	}
	c.done[label] = true
	c.w.begin(label, 0, nil)
	f()
	c.w.cur.msg = nil // crafting changes no replica
	return true
}

func (c *crafter) key() string {
	var ls []string
	for l := range c.done {
		ls = append(ls, l)
	}
	sort.Strings(ls)
	return strings.Join(ls, ";")
}
