package cluster

import (
	"fmt"

	"github.com/relab/hotstuff"
)

// SuffixResult is the outcome of one synchronous suffix.
type SuffixResult struct {
	OK       bool
	Skipped  bool // the prefix could not be replayed under the healed leader schedule
	Detail   string
	HealView hotstuff.View
	Events   int
	Trace    []string
}

// ChainLength of the rulesets (Ruleset.ChainLength() of the real objects is read at run time).
func chainLength(w *World) int { return w.Nodes[0].Rules.ChainLength() }

// SyncSuffix replays the prefix and then runs the deterministic synchronous suffix: only the
// live quorum Q (everything but `crashed` and twin pairs) exchanges messages, all in-flight
// messages among them are delivered FIFO before any timer fires, timers fire at quiescence only,
// and the views from the heal view on are led by members of Q. The oracle: every member of Q
// commits a block it had not committed at the heal point before the highest view in Q exceeds
// healView + 3*ChainLength + 2.
func SyncSuffix(cfg Config, prefix []string, prefixMaxView hotstuff.View, crashed hotstuff.ID) SuffixResult {
	heal := prefixMaxView + 2
	var q []hotstuff.ID
	for i := 1; i <= cfg.N; i++ {
		id := hotstuff.ID(i)
		if id != crashed && id != cfg.Twin && id != cfg.Crafter {
			q = append(q, id)
		}
	}
	n := hotstuff.View(cfg.N)
	base := cfg.Leader
	cfg2 := cfg
	cfg2.Leader = func(v hotstuff.View) hotstuff.ID {
		if v < heal {
			if base != nil {
				return base(v)
			}
			return hotstuff.ID(v%n + 1)
		}
		return q[int(v)%len(q)]
	}
	cfg2.Timeouts = 1 << 20
	cfg2.Dups, cfg2.Byz, cfg2.Drops = 0, 0, false
	cfg2.Commands = cfg.Commands + 40
	cfg2.Horizon = heal + 64
	w := New(cfg2)
	for _, l := range prefix {
		if !w.Apply(l) {
			return SuffixResult{Skipped: true, Detail: "prefix event " + l + " not enabled under the healed leader schedule"}
		}
	}
	w.Mon.Viol = nil
	bound := heal + hotstuff.View(3*chainLength(w)+2)
	// heal
	w.Cfg.Crashed = map[hotstuff.ID]bool{}
	for i := 1; i <= cfg.N; i++ {
		id := hotstuff.ID(i)
		live := false
		for _, m := range q {
			if m == id {
				live = true
			}
		}
		if !live {
			w.Cfg.Crashed[id] = true
		}
	}
	baseline := map[int]int{}
	var members []*SimNode
	for _, nd := range w.Nodes {
		if !w.Cfg.Crashed[nd.ID] {
			members = append(members, nd)
			baseline[nd.Slot] = len(nd.Commits)
		}
	}
	res := SuffixResult{HealView: heal}
	mark := len(w.Trace)
	for step := 0; step < 5000; step++ {
		done := true
		var maxV hotstuff.View
		for _, nd := range members {
			if len(nd.Commits) <= baseline[nd.Slot] {
				done = false
			}
			if nd.VS.View() > maxV {
				maxV = nd.VS.View()
			}
		}
		if done {
			res.OK = true
			res.Events = step
			return res
		}
		if maxV > bound {
			res.Detail = fmt.Sprintf("highest view in the quorum is %d > heal view %d + 3*%d + 2, but %s", maxV, heal, chainLength(w), lagging(members, baseline))
			res.Trace = append([]string(nil), w.Trace[mark:]...)
			return res
		}
		d := w.Default()
		if d == "" {
			res.Detail = fmt.Sprintf("no event is enabled (views %v) and %s", views(members), lagging(members, baseline))
			res.Trace = append([]string(nil), w.Trace[mark:]...)
			return res
		}
		if !w.Apply(d) {
			res.Skipped = true
			res.Detail = "default event not applicable: " + d
			return res
		}
		if w.Starved {
			res.Skipped = true
			res.Detail = "command stock exhausted"
			return res
		}
	}
	res.Detail = "suffix did not finish within 5000 events; " + lagging(members, baseline)
	res.Trace = append([]string(nil), w.Trace[mark:min(len(w.Trace), mark+150)]...)
	return res
}

func views(ms []*SimNode) []int {
	var v []int
	for _, n := range ms {
		v = append(v, int(n.VS.View()))
	}
	return v
}

func lagging(ms []*SimNode, baseline map[int]int) string {
	var s []int
	for _, n := range ms {
		if len(n.Commits) <= baseline[n.Slot] {
			s = append(s, int(n.ID))
		}
	}
	return fmt.Sprintf("replicas %v have not committed a new block (views %v)", s, views(ms))
}

// FaultFree runs the lock-step schedule for `views` views and checks that every view adds one
// certified child of the previous block and that commits trail the newest block by exactly the
// ruleset's chain length.
func FaultFree(cfg Config, nviews int) (string, *World) {
	cfg.Horizon = hotstuff.View(nviews)
	cfg.Timeouts = 8 * nviews // timers fire at quiescence only (the aggregate timeout rule needs them every view)
	cfg.Commands = nviews + 4
	w := New(cfg)
	for step := 0; step < 20000; step++ {
		d := w.Default()
		if d == "" {
			break
		}
		if !w.Apply(d) {
			return "harness: default event not applicable", w
		}
	}
	cl := chainLength(w)
	// blocks by view
	byView := map[hotstuff.View][]*hotstuff.Block{}
	for _, b := range w.Blocks {
		byView[b.View()] = append(byView[b.View()], b)
	}
	for v := 1; v <= nviews; v++ {
		bs := byView[hotstuff.View(v)]
		if len(bs) != 1 {
			return fmt.Sprintf("view %d has %d proposed blocks in the fault-free lock-step run", v, len(bs)), w
		}
		b := bs[0]
		if v > 1 {
			prev := byView[hotstuff.View(v-1)][0]
			if b.Parent() != prev.Hash() || b.QuorumCert().BlockHash() != prev.Hash() {
				return fmt.Sprintf("the view-%d block does not extend the certified view-%d block", v, v-1), w
			}
		}
	}
	for _, n := range w.Nodes {
		if !n.Honest {
			continue
		}
		// the newest block this replica knows (the leader of view nviews+1 has already built its own)
		newest := 0
		for _, b := range w.Blocks {
			if _, ok := n.Chain.LocalGet(b.Hash()); ok && int(b.View()) > newest {
				newest = int(b.View())
			}
		}
		got := int(n.VS.CommittedBlock().View())
		if newest < nviews || got != newest-cl {
			return fmt.Sprintf("replica %d: newest block has view %d, committed block has view %d, commit-chain length is %d", n.ID, newest, got, cl), w
		}
	}
	return "", w
}

// IsolationResult is the outcome of one isolation-and-heal run.
type IsolationResult struct {
	HealView   hotstuff.View         // first view after the scenario
	CommitView map[hotstuff.ID]int   // highest view in the system when the replica first committed a block it had not committed at the heal point (-1: never)
	MaxView    hotstuff.View         // highest view reached
	Events     int
	Trace      []string
	Broken     string
}

// IsolationRun runs the lock-step schedule (FIFO delivery, timers at quiescence) of a scenario in
// which replica `isolated` is cut off from the others for the first k views, whose leaders follow
// `pattern` cyclically; from view k+1 on all replicas are connected and views are led by the members
// of `rotation` in turn.
// It reports, per replica, how many views after the heal it took to commit a new block.
func IsolationRun(cfg Config, isolated hotstuff.ID, pattern, rotation []hotstuff.ID, k, suffixViews int) IsolationResult {
	all := uint32(1)<<uint(cfg.N) - 1
	mask := all &^ (1 << uint(isolated-1))
	if isolated == 1 {
		mask = 1
	}
	cfg.Scenario = nil
	for v := 0; v < k; v++ {
		cfg.Scenario = append(cfg.Scenario, ScView{Leader: pattern[v%len(pattern)], Mask: mask})
	}
	cfg.Horizon = hotstuff.View(k + suffixViews + 8)
	cfg.Timeouts = 1 << 20
	cfg.Commands = k + suffixViews + 16
	cfg.Leader = func(v hotstuff.View) hotstuff.ID {
		if v >= 1 && int(v) <= k {
			return pattern[(int(v)-1)%len(pattern)]
		}
		return rotation[int(v)%len(rotation)]
	}
	w := New(cfg)
	res := IsolationResult{HealView: hotstuff.View(k + 1), CommitView: map[hotstuff.ID]int{}}
	baseline := map[int]int{}
	healed := false
	for step := 0; step < 40000; step++ {
		var maxV hotstuff.View
		for _, nd := range w.Nodes {
			if nd.VS.View() > maxV {
				maxV = nd.VS.View()
			}
		}
		res.MaxView = maxV
		if !healed && maxV > hotstuff.View(k) {
			healed = true
			for _, nd := range w.Nodes {
				baseline[nd.Slot] = len(nd.Commits)
				res.CommitView[nd.ID] = -1
			}
		}
		if healed {
			done := true
			for _, nd := range w.Nodes {
				if res.CommitView[nd.ID] < 0 {
					if len(nd.Commits) > baseline[nd.Slot] {
						res.CommitView[nd.ID] = int(maxV)
					} else {
						done = false
					}
				}
			}
			if done || int(maxV) > k+suffixViews {
				break
			}
		}
		d := w.Default()
		if d == "" {
			break
		}
		if !w.Apply(d) {
			res.Broken = "default event not applicable: " + d
			break
		}
		if w.Starved {
			res.Broken = "command stock exhausted"
			break
		}
		res.Events++
	}
	if !healed {
		for _, nd := range w.Nodes {
			res.CommitView[nd.ID] = -1
		}
	}
	res.Trace = w.Trace
	return res
}

// PartitionRun: the replicas are split into two halves without a quorum on either side for `rounds`
// rounds of timer expiries (every live replica's timer fires once per round, at quiescence), then all
// are connected again and the lock-step schedule continues. Reports the highest view reached when
// every replica has committed a block it had not committed at the heal point (or -1).
func PartitionRun(cfg Config, mask uint32, rounds, maxViewsAfter int) (res IsolationResult) {
	cfg.Scenario = nil
	for v := 0; v < 64; v++ {
		cfg.Scenario = append(cfg.Scenario, ScView{Leader: hotstuff.ID(v%cfg.N + 1), Mask: mask})
	}
	cfg.Leader = func(v hotstuff.View) hotstuff.ID { return hotstuff.ID(int(v)%cfg.N + 1) }
	cfg.Horizon = hotstuff.View(64)
	cfg.Timeouts = 1 << 20
	cfg.Commands = maxViewsAfter + 32
	w := New(cfg)
	res.CommitView = map[hotstuff.ID]int{}
	step := func() bool {
		d := w.Default()
		if d == "" {
			return false
		}
		if !w.Apply(d) {
			res.Broken = "default event not applicable: " + d
			return false
		}
		if w.Starved {
			res.Broken = "command stock exhausted"
			return false
		}
		res.Events++
		return true
	}
	// partitioned phase: until every replica's timer has fired `rounds` times (or nothing is enabled)
	for i := 0; i < 20000; i++ {
		done := true
		for _, nd := range w.Nodes {
			if w.timerCount(nd.Slot) < rounds && w.timerArmed(nd) {
				done = false
			}
		}
		if done || !step() {
			break
		}
	}
	// deliver what is still in flight inside the halves, then heal
	for i := 0; i < 20000 && len(w.Inflight) > 0; i++ {
		if d := w.Default(); d == "" || d[0] == 'T' || !step() {
			break
		}
	}
	w.Cfg.Scenario = nil
	var healView hotstuff.View
	baseline := map[int]int{}
	for _, nd := range w.Nodes {
		baseline[nd.Slot] = len(nd.Commits)
		res.CommitView[nd.ID] = -1
		if nd.VS.View() > healView {
			healView = nd.VS.View()
		}
	}
	res.HealView = healView
	for i := 0; i < 40000; i++ {
		var maxV hotstuff.View
		done := true
		for _, nd := range w.Nodes {
			if nd.VS.View() > maxV {
				maxV = nd.VS.View()
			}
			if res.CommitView[nd.ID] < 0 {
				if len(nd.Commits) > baseline[nd.Slot] {
					res.CommitView[nd.ID] = int(maxV)
				} else {
					done = false
				}
			}
		}
		res.MaxView = maxV
		if done || int(maxV) > int(healView)+maxViewsAfter || !step() {
			break
		}
	}
	res.Trace = w.Trace
	return res
}
