// Package dump produces a canonical, deterministic textual form of an arbitrary object
// graph, including unexported fields, for use as a state key. Maps are sorted, pointers are
// followed (cycles become back references), functions/channels/locks/timers/loggers are
// skipped, blocks are named by their hash.
package dump

import (
	"crypto/sha256"
	"encoding/hex"
	"fmt"
	"reflect"
	"sort"
	"strings"
	"time"
	"unsafe"

	"github.com/relab/hotstuff"
)

type rvalue struct {
	typ  unsafe.Pointer
	ptr  unsafe.Pointer
	flag uintptr
}

const flagRO = 1<<5 | 1<<6

func unRO(v reflect.Value) reflect.Value {
	(*rvalue)(unsafe.Pointer(&v)).flag &^= flagRO
	return v
}

// Options tunes the dump.
type Options struct {
	// SkipTypes are fully qualified type names (pkgpath.Name) that are not descended into.
	SkipTypes map[string]bool
	// SkipFields are "pkgpath.Type.field" names to omit.
	SkipFields map[string]bool
	// SortSlices are "pkgpath.Type.field" names of slices that are treated as multisets.
	SortSlices map[string]bool
}

var defaultSkip = map[string]bool{
	"sync.Mutex": true, "sync.RWMutex": true, "sync.Pool": true, "sync.Once": true, "sync.WaitGroup": true,
	"time.Timer": true, "sync/atomic.Int64": true,
	"github.com/relab/hotstuff/zverif/fix.NopLogger": true,
	"github.com/relab/hotstuff/zverif/fix.Truth":     true,
	"github.com/relab/gorums.Server":                 true,
	"crypto/sha256.digest":                           true,
	"crypto/internal/fips140/sha256.Digest":          true,
}

type dumper struct {
	sb      strings.Builder
	seen    map[unsafe.Pointer]int
	o       *Options
}

// String returns the canonical dump of v (usually a pointer to a root struct).
func String(v any, o *Options) string {
	if o == nil {
		o = &Options{}
	}
	d := &dumper{seen: map[unsafe.Pointer]int{}, o: o}
	d.val(reflect.ValueOf(v), "")
	return d.sb.String()
}

// Key returns a short hash of the canonical dump.
func Key(v any, o *Options) string {
	h := sha256.Sum256([]byte(String(v, o)))
	return hex.EncodeToString(h[:12])
}

var (
	blockPtrType = reflect.TypeOf((*hotstuff.Block)(nil))
	timeType     = reflect.TypeOf(time.Time{})
	hashType     = reflect.TypeOf(hotstuff.Hash{})
)

// sub returns a dumper for one map entry / sorted element: it knows the ancestors (so cycles
// are cut) but does not leak what it visited, which keeps the result independent of map order.
func (d *dumper) sub() *dumper {
	m := make(map[unsafe.Pointer]int, len(d.seen))
	for k, v := range d.seen {
		m[k] = v
	}
	return &dumper{seen: m, o: d.o}
}

func typeName(t reflect.Type) string {
	if t.PkgPath() == "" {
		return t.String()
	}
	name := t.Name()
	if i := strings.IndexByte(name, '['); i >= 0 {
		name = name[:i] // strip type arguments
	}
	return t.PkgPath() + "." + name
}

func (d *dumper) val(v reflect.Value, path string) {
	if !v.IsValid() {
		d.sb.WriteString("<invalid>")
		return
	}
	v = unRO(v)
	t := v.Type()
	if d.o.SkipTypes[typeName(t)] || defaultSkip[typeName(t)] {
		d.sb.WriteString("_")
		return
	}
	switch t {
	case blockPtrType:
		if v.IsNil() {
			d.sb.WriteString("B:nil")
		} else {
			h := v.Interface().(*hotstuff.Block).Hash()
			d.sb.WriteString("B:" + hex.EncodeToString(h[:8]))
		}
		return
	case timeType:
		fmt.Fprintf(&d.sb, "T:%d", v.Interface().(time.Time).UnixNano())
		return
	case hashType:
		h := v.Interface().(hotstuff.Hash)
		d.sb.WriteString("H:" + hex.EncodeToString(h[:8]))
		return
	}
	switch v.Kind() {
	case reflect.Bool:
		fmt.Fprintf(&d.sb, "%v", v.Bool())
	case reflect.Int, reflect.Int8, reflect.Int16, reflect.Int32, reflect.Int64:
		fmt.Fprintf(&d.sb, "%d", v.Int())
	case reflect.Uint, reflect.Uint8, reflect.Uint16, reflect.Uint32, reflect.Uint64, reflect.Uintptr:
		fmt.Fprintf(&d.sb, "%d", v.Uint())
	case reflect.Float32, reflect.Float64:
		fmt.Fprintf(&d.sb, "%g", v.Float())
	case reflect.String:
		fmt.Fprintf(&d.sb, "%q", v.String())
	case reflect.Func:
		if v.IsNil() {
			d.sb.WriteString("fn:nil")
		} else {
			d.sb.WriteString("fn")
		}
	case reflect.Chan:
		if v.IsNil() {
			d.sb.WriteString("ch:nil")
		} else {
			fmt.Fprintf(&d.sb, "ch:%d", v.Len())
		}
	case reflect.UnsafePointer:
		d.sb.WriteString("up")
	case reflect.Interface:
		if v.IsNil() {
			d.sb.WriteString("i:nil")
			return
		}
		if rt, ok := v.Interface().(reflect.Type); ok {
			d.sb.WriteString("type:" + rt.String()) // never walk runtime type descriptors
			return
		}
		e := v.Elem()
		et := e.Type()
		// context values and loggers carry no protocol state
		if strings.HasPrefix(et.String(), "*context.") || strings.HasPrefix(et.String(), "context.") {
			d.sb.WriteString("ctx")
			return
		}
		d.sb.WriteString("i(" + et.String() + ")")
		d.val(e, path)
	case reflect.Ptr:
		if v.IsNil() {
			d.sb.WriteString("nil")
			return
		}
		p := v.UnsafePointer()
		if _, ok := d.seen[p]; ok {
			d.sb.WriteString("^")
			return
		}
		d.seen[p] = len(d.seen)
		d.sb.WriteString("&")
		d.val(v.Elem(), path)
	case reflect.Struct:
		tn := typeName(t)
		d.sb.WriteString("{")
		for i := 0; i < t.NumField(); i++ {
			f := t.Field(i)
			fp := tn + "." + f.Name
			if d.o.SkipFields[fp] {
				continue
			}
			d.sb.WriteString(f.Name + ":")
			d.val(v.Field(i), fp)
			d.sb.WriteString(",")
		}
		d.sb.WriteString("}")
	case reflect.Array:
		if t.Elem().Kind() == reflect.Uint8 {
			b := make([]byte, v.Len())
			for i := range b {
				b[i] = byte(v.Index(i).Uint())
			}
			d.sb.WriteString("x" + hex.EncodeToString(b))
			return
		}
		d.sb.WriteString("[")
		for i := 0; i < v.Len(); i++ {
			d.val(v.Index(i), path)
			d.sb.WriteString(",")
		}
		d.sb.WriteString("]")
	case reflect.Slice:
		if v.IsNil() || v.Len() == 0 {
			d.sb.WriteString("[]")
			return
		}
		if t.Elem().Kind() == reflect.Uint8 {
			d.sb.WriteString("x" + hex.EncodeToString(v.Bytes()))
			return
		}
		if d.o.SortSlices[path] {
			parts := make([]string, v.Len())
			for i := range parts {
				sub := d.sub()
				sub.val(v.Index(i), path)
				parts[i] = sub.sb.String()
			}
			sort.Strings(parts)
			d.sb.WriteString("S[" + strings.Join(parts, ",") + "]")
			return
		}
		d.sb.WriteString("[")
		for i := 0; i < v.Len(); i++ {
			d.val(v.Index(i), path)
			d.sb.WriteString(",")
		}
		d.sb.WriteString("]")
	case reflect.Map:
		if v.IsNil() || v.Len() == 0 {
			d.sb.WriteString("map[]")
			return
		}
		type kv struct{ k, v string }
		var ents []kv
		it := v.MapRange()
		for it.Next() {
			ks := d.sub()
			ks.val(it.Key(), path)
			vs := d.sub()
			vs.val(it.Value(), path)
			ents = append(ents, kv{ks.sb.String(), vs.sb.String()})
		}
		sort.Slice(ents, func(i, j int) bool { return ents[i].k < ents[j].k })
		d.sb.WriteString("map[")
		for _, e := range ents {
			d.sb.WriteString(e.k + "=>" + e.v + ";")
		}
		d.sb.WriteString("]")
	default:
		d.sb.WriteString("?" + v.Kind().String())
	}
}

// Field returns the (possibly unexported) field of the struct pointed to by obj as an
// interface value; ok=false if there is no such field.
func Field(obj any, name string) (val any, ok bool) {
	v := reflect.ValueOf(obj)
	for v.Kind() == reflect.Ptr || v.Kind() == reflect.Interface {
		if v.IsNil() {
			return nil, false
		}
		v = v.Elem()
	}
	if v.Kind() != reflect.Struct {
		return nil, false
	}
	f := v.FieldByName(name)
	if !f.IsValid() {
		return nil, false
	}
	if f.CanAddr() {
		f = reflect.NewAt(f.Type(), unsafe.Pointer(f.UnsafeAddr())).Elem()
	} else {
		f = unRO(f)
	}
	return f.Interface(), true
}

// Fields dumps only the named (possibly unexported) fields of the struct pointed to by obj.
// A missing field is rendered as "?name" (e.g. after a rename), which keeps keys deterministic.
func Fields(obj any, o *Options, names ...string) string {
	if o == nil {
		o = &Options{}
	}
	v := reflect.ValueOf(obj)
	for v.Kind() == reflect.Ptr || v.Kind() == reflect.Interface {
		if v.IsNil() {
			return "nil"
		}
		v = v.Elem()
	}
	var sb strings.Builder
	if v.Kind() != reflect.Struct {
		return String(obj, o)
	}
	tn := typeName(v.Type())
	for _, name := range names {
		f := v.FieldByName(name)
		if !f.IsValid() {
			sb.WriteString("?" + name + ",")
			continue
		}
		d := &dumper{seen: map[unsafe.Pointer]int{}, o: o}
		d.val(f, tn+"."+name)
		sb.WriteString(name + ":" + d.sb.String() + ",")
	}
	return sb.String()
}
