// Package fix builds clusters of real authorities / blockchains / event loops from the
// production constructors, with a ground-truth recorder under every signing primitive.
package fix

import (
	"context"
	"crypto/ed25519"
	"crypto/sha256"
	"fmt"
	"sort"
	"sync"

	"github.com/relab/hotstuff"
	"github.com/relab/hotstuff/core"
	"github.com/relab/hotstuff/core/eventloop"
	"github.com/relab/hotstuff/core/logging"
	"github.com/relab/hotstuff/security/blockchain"
	"github.com/relab/hotstuff/security/cert"
	"github.com/relab/hotstuff/security/crypto"
	"github.com/relab/hotstuff/security/crypto/keygen"
)

// NopLogger discards everything (and, if asked to, records what is logged at warning or error level:
// the checks read reports, not their wording or level).
type NopLogger struct {
	mu    sync.Mutex
	Warns []string
	Keep  bool
}

func (l *NopLogger) rec(s string) {
	if l.Keep {
		l.mu.Lock()
		l.Warns = append(l.Warns, s)
		l.mu.Unlock()
	}
}
func (l *NopLogger) DPanic(...any)          {}
func (l *NopLogger) DPanicf(string, ...any) {}
func (l *NopLogger) Debug(...any)           {}
func (l *NopLogger) Debugf(string, ...any)  {}
func (l *NopLogger) Error(a ...any) {
	if l.Keep {
		l.rec(fmt.Sprint(a...))
	}
}
func (l *NopLogger) Errorf(f string, a ...any) {
	if l.Keep {
		l.rec(fmt.Sprintf(f, a...))
	}
}
func (l *NopLogger) Fatal(a ...any)         { panic(fmt.Sprint(a...)) }
func (l *NopLogger) Fatalf(f string, a ...any) {
	panic(fmt.Sprintf(f, a...))
}
func (l *NopLogger) Info(...any)          {}
func (l *NopLogger) Infof(string, ...any) {}
func (l *NopLogger) Panic(a ...any)       { panic(fmt.Sprint(a...)) }
func (l *NopLogger) Panicf(f string, a ...any) {
	panic(fmt.Sprintf(f, a...))
}
func (l *NopLogger) Warn(a ...any) {
	if l.Keep {
		l.rec(fmt.Sprint(a...))
	}
}
func (l *NopLogger) Warnf(f string, a ...any) {
	if l.Keep {
		l.rec(fmt.Sprintf(f, a...))
	}
}

var _ logging.Logger = (*NopLogger)(nil)

// Truth is the ground truth of who really signed which bytes.
type Truth struct {
	mu     sync.Mutex
	signed map[[32]byte]map[hotstuff.ID]int
	// Log is the ordered list of signing events, first occurrence of every (signer, message) pair.
	Log []SignEvent
}

type SignEvent struct {
	ID  hotstuff.ID
	Msg []byte
	Tag string // "<id>:<short hash of msg>", precomputed for state keys
}

func NewTruth() *Truth { return &Truth{signed: map[[32]byte]map[hotstuff.ID]int{}} }

func (t *Truth) record(id hotstuff.ID, msg []byte) {
	h := sha256.Sum256(msg)
	t.mu.Lock()
	m := t.signed[h]
	if m == nil {
		m = map[hotstuff.ID]int{}
		t.signed[h] = m
	}
	m[id]++
	if m[id] == 1 { // one entry per (signer, message): fixtures shared by 10^6 executions must not grow
		t.Log = append(t.Log, SignEvent{ID: id, Msg: append([]byte(nil), msg...), Tag: fmt.Sprintf("%d:%x", id, h[:6])})
	}
	t.mu.Unlock()
}

// Signed reports whether id really signed exactly msg.
func (t *Truth) Signed(id hotstuff.ID, msg []byte) bool {
	h := sha256.Sum256(msg)
	t.mu.Lock()
	defer t.mu.Unlock()
	return t.signed[h][id] > 0
}

// Signers returns the sorted ids that really signed msg.
func (t *Truth) Signers(msg []byte) []hotstuff.ID {
	h := sha256.Sum256(msg)
	t.mu.Lock()
	defer t.mu.Unlock()
	var ids []hotstuff.ID
	for id := range t.signed[h] {
		ids = append(ids, id)
	}
	sort.Slice(ids, func(i, j int) bool { return ids[i] < ids[j] })
	return ids
}

// Recorder decorates a crypto.Base and records every successful Sign in the Truth.
type Recorder struct {
	crypto.Base
	ID    hotstuff.ID
	Truth *Truth
	// OnSign, if set, is called before signing (monitors hook in here).
	OnSign func(id hotstuff.ID, msg []byte)
}

func (r *Recorder) Sign(message []byte) (hotstuff.QuorumSignature, error) {
	if r.OnSign != nil {
		r.OnSign(r.ID, message)
	}
	sig, err := r.Base.Sign(message)
	if err == nil {
		r.Truth.record(r.ID, message)
	}
	return sig, err
}

// Sender is a core.Sender that records what is sent and answers block requests through Fetch.
type Sender struct {
	ID    hotstuff.ID
	Sent  []any // hotstuff.ProposeMsg, VoteTo, NewViewTo, hotstuff.TimeoutMsg
	Fetch func(hash hotstuff.Hash) (*hotstuff.Block, bool)
	// Contribs are Kauri contributions handed to SendContributionToParent.
	Contribs []Contribution
	subIDs   []hotstuff.ID
	parent   *Sender
}

type VoteTo struct {
	To   hotstuff.ID
	Cert hotstuff.PartialCert
}
type NewViewTo struct {
	To hotstuff.ID
	SI hotstuff.SyncInfo
}
type ProposeTo struct {
	To  []hotstuff.ID // nil = all
	Msg hotstuff.ProposeMsg
}
type Contribution struct {
	View hotstuff.View
	Sig  hotstuff.QuorumSignature
}

func (s *Sender) root() *Sender {
	for s.parent != nil {
		s = s.parent
	}
	return s
}
func (s *Sender) NewView(id hotstuff.ID, msg hotstuff.SyncInfo) error {
	r := s.root()
	r.Sent = append(r.Sent, NewViewTo{id, msg})
	return nil
}
func (s *Sender) Vote(id hotstuff.ID, c hotstuff.PartialCert) error {
	r := s.root()
	r.Sent = append(r.Sent, VoteTo{id, c})
	return nil
}
func (s *Sender) Timeout(msg hotstuff.TimeoutMsg) {
	r := s.root()
	r.Sent = append(r.Sent, msg)
}
func (s *Sender) Propose(p *hotstuff.ProposeMsg) {
	r := s.root()
	r.Sent = append(r.Sent, ProposeTo{To: s.subIDs, Msg: *p})
}
func (s *Sender) RequestBlock(_ context.Context, hash hotstuff.Hash) (*hotstuff.Block, bool) {
	r := s.root()
	if r.Fetch == nil {
		return nil, false
	}
	return r.Fetch(hash)
}
func (s *Sender) Sub(ids []hotstuff.ID) (core.Sender, error) {
	return &Sender{ID: s.ID, subIDs: append([]hotstuff.ID(nil), ids...), parent: s}, nil
}
func (s *Sender) SendContributionToParent(view hotstuff.View, sig hotstuff.QuorumSignature) {
	r := s.root()
	r.Contribs = append(r.Contribs, Contribution{view, sig})
}

var _ core.KauriSender = (*Sender)(nil)

// Cluster is n real authorities over one key set.
type Cluster struct {
	N       int
	Scheme  string
	Truth   *Truth
	Keys    []hotstuff.PrivateKey
	Cfgs    []*core.RuntimeConfig
	Recs    []*Recorder
	Auths   []*cert.Authority
	Chains  []*blockchain.Blockchain
	Loops   []*eventloop.EventLoop
	Senders []*Sender
	Loggers []*NopLogger
}

var keyCache sync.Map // scheme/id -> key (key generation is the slow part for BLS/ECDSA)

// Key returns a per-(scheme,id) key, deterministic for EdDSA, cached for the others.
func Key(scheme string, id hotstuff.ID) hotstuff.PrivateKey {
	k := fmt.Sprintf("%s/%d", scheme, id)
	if v, ok := keyCache.Load(k); ok {
		return v.(hotstuff.PrivateKey)
	}
	var key hotstuff.PrivateKey
	switch scheme {
	case crypto.NameEDDSA:
		seed := sha256.Sum256([]byte(k))
		key = ed25519.NewKeyFromSeed(seed[:])
	case crypto.NameECDSA:
		pk, err := keygen.GenerateECDSAPrivateKey()
		if err != nil {
			panic(err)
		}
		key = pk
	case crypto.NameBLS12:
		// deterministic: 31 bytes of a hash are always below the group order
		seed := sha256.Sum256([]byte(k))
		pk := &crypto.BLS12PrivateKey{}
		pk.FromBytes(seed[:31])
		key = pk
	default:
		panic("unknown scheme " + scheme)
	}
	v, _ := keyCache.LoadOrStore(k, key)
	return v.(hotstuff.PrivateKey)
}

// Opts configures NewCluster.
type Opts struct {
	Cache  uint
	AggQC  bool
	Extra  []core.RuntimeOption
	QueueN uint
}

// NewCluster wires n replicas' security components exactly as wiring.NewSecurity does.
func NewCluster(n int, scheme string, o Opts) *Cluster {
	c := &Cluster{N: n, Scheme: scheme, Truth: NewTruth()}
	if o.QueueN == 0 {
		o.QueueN = 1000
	}
	bases := make([]crypto.Base, n)
	for i := 0; i < n; i++ {
		id := hotstuff.ID(i + 1)
		key := Key(scheme, id)
		opts := []core.RuntimeOption{core.WithSyncVerification()}
		if o.Cache > 0 {
			opts = append(opts, core.WithCache(o.Cache))
		}
		if o.AggQC {
			opts = append(opts, core.WithAggregateQC())
		}
		opts = append(opts, o.Extra...)
		cfg := core.NewRuntimeConfig(id, key, opts...)
		base, err := crypto.New(cfg, scheme)
		if err != nil {
			panic(err)
		}
		c.Keys = append(c.Keys, key)
		c.Cfgs = append(c.Cfgs, cfg)
		bases[i] = base
	}
	for _, cfg := range c.Cfgs {
		for j, other := range c.Cfgs {
			md := map[string]string{}
			for k, v := range other.ConnectionMetadata() {
				md[k] = v
			}
			cfg.AddReplica(&hotstuff.ReplicaInfo{ID: other.ID(), PubKey: c.Keys[j].Public(), Metadata: md})
		}
	}
	for i, cfg := range c.Cfgs {
		lg := &NopLogger{}
		el := eventloop.New(lg, o.QueueN)
		snd := &Sender{ID: cfg.ID()}
		rec := &Recorder{Base: bases[i], ID: cfg.ID(), Truth: c.Truth}
		chain := blockchain.New(el, lg, snd)
		auth := cert.NewAuthority(cfg, chain, rec)
		c.Loggers = append(c.Loggers, lg)
		c.Loops = append(c.Loops, el)
		c.Senders = append(c.Senders, snd)
		c.Recs = append(c.Recs, rec)
		c.Chains = append(c.Chains, chain)
		c.Auths = append(c.Auths, auth)
	}
	return c
}

// StoreAll stores the block in every replica's chain.
func (c *Cluster) StoreAll(b *hotstuff.Block) {
	for _, ch := range c.Chains {
		ch.Store(b)
	}
}

// Drain runs replica i's event loop until quiescent.
func (c *Cluster) Drain(i int) {
	for c.Loops[i].Tick(context.Background()) {
	}
}
