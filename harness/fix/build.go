package fix

import (
	"github.com/relab/hotstuff"
	"github.com/relab/hotstuff/internal/proto/clientpb"
)

// Cmd makes a client command.
func Cmd(client uint32, seq uint64) *clientpb.Command {
	return &clientpb.Command{ClientID: client, SequenceNumber: seq, Data: []byte{byte(client), byte(seq)}}
}

// Batch makes a batch of commands.
func Batch(cmds ...*clientpb.Command) *clientpb.Batch {
	return &clientpb.Batch{Commands: cmds}
}

// GenesisQC is the certificate of the genesis block.
func GenesisQC() hotstuff.QuorumCert {
	return hotstuff.NewQuorumCert(nil, 0, hotstuff.GetGenesis().Hash())
}

// SignBlock returns the signatures of the given replica indexes (0-based) over the block.
func (c *Cluster) SignBlock(b *hotstuff.Block, idx ...int) []hotstuff.QuorumSignature {
	return c.SignBytes(b.ToBytes(), idx...)
}

// SignBytes returns one signature per given replica index over msg.
func (c *Cluster) SignBytes(msg []byte, idx ...int) []hotstuff.QuorumSignature {
	sigs := make([]hotstuff.QuorumSignature, 0, len(idx))
	for _, i := range idx {
		s, err := c.Auths[i].Sign(msg)
		if err != nil {
			panic(err)
		}
		sigs = append(sigs, s)
	}
	return sigs
}

// Combine combines signatures with replica 0's authority; a single signature is returned as is.
func (c *Cluster) Combine(sigs ...hotstuff.QuorumSignature) hotstuff.QuorumSignature {
	if len(sigs) == 0 {
		return nil
	}
	if len(sigs) == 1 {
		return sigs[0]
	}
	s, err := c.Auths[0].Combine(sigs...)
	if err != nil {
		panic(err)
	}
	return s
}

// QC builds a certificate for b signed by the given replica indexes.
func (c *Cluster) QC(b *hotstuff.Block, idx ...int) hotstuff.QuorumCert {
	return hotstuff.NewQuorumCert(c.Combine(c.SignBlock(b, idx...)...), b.View(), b.Hash())
}

// Range returns 0..k-1.
func Range(k int) []int {
	r := make([]int, k)
	for i := range r {
		r[i] = i
	}
	return r
}
