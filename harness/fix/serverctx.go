package fix

import (
	"context"
	"sync"
	"unsafe"

	"github.com/relab/gorums"
)

// serverCtxMirror has the layout of gorums.ServerCtx (v0.10.0: embedded Context, once, mut, c).
// gorums offers no constructor and files under GOMODCACHE cannot be overlaid, so the harness
// builds the value through this mirror; the size check guards against a layout change.
type serverCtxMirror struct {
	context.Context
	once *sync.Once
	mut  *sync.Mutex
	c    chan<- *gorums.Message
}

// NewServerCtx returns a ServerCtx whose Release() works (it unlocks a private mutex once).
func NewServerCtx(ctx context.Context) (gorums.ServerCtx, *sync.Mutex) {
	mu := &sync.Mutex{}
	mu.Lock()
	m := serverCtxMirror{Context: ctx, once: new(sync.Once), mut: mu}
	if unsafe.Sizeof(m) != unsafe.Sizeof(gorums.ServerCtx{}) {
		panic("gorums.ServerCtx layout changed")
	}
	return *(*gorums.ServerCtx)(unsafe.Pointer(&m)), mu
}
