#!/bin/bash
# Builds the framework from files on disk only (offline) and warms the Go build cache.
set -e
export GOFLAGS=-mod=mod GOPROXY=off
cd /verif
mkdir -p tools/bin .build evidence replays
(cd tools/overlaygen && GOFLAGS= GOTOOLCHAIN=local go build -o /verif/tools/bin/overlaygen .)
B=/verif/.build/setup; mkdir -p $B
tools/bin/overlaygen -repo /repo -verif /verif -out $B
(cd /repo && go build -tags verif -overlay $B/overlay.json -o $B/mc ./zverif/cmd/mc)
echo setup ok
