#!/bin/bash
# tools/refresh.sh : runs every quick check once on the current /repo tree (must be clean) and rewrites evidence/*.json.
cd /verif
[ -z "$(git -C /repo status --porcelain)" ] || { echo "repo not clean"; exit 2; }
rm -f replays/*
for id in C20 C19 C17 C16 C12 C18 C13 C11 C02 C10 C04 C08 C15 C09 C14 C05 C01 C03 C06 C07; do
  OUT=$(./check $id quick 2>&1); RC=$?
  echo "$id exit=$RC $(echo "$OUT" | grep "^$id quick:" | cut -c1-160)"
  echo "$OUT" | grep "^VIOLATION\|HARNESS-BROKEN" | head -3
done
python3-vt tools/validate.py | grep -v " ok$"
