#!/bin/bash
# tools/seedall.sh [seed id ...] : regression over the stored seeded changes. For every seed, applies its patch to /repo,
# runs the quick checks that its meta.json records as reporting it ("VIOLATION ..."), restores /repo, and prints
# one line per (seed, check): caught / MISSED.
cd /verif
SEEDS="$@"; [ -z "$SEEDS" ] && SEEDS=$(ls seeded)
for S in $SEEDS; do
  CHECKS=$(python3 -c "
import json
d=json.load(open('/verif/seeded/$S/meta.json'))
print(' '.join(sorted({k.split()[0] for k,v in d.get('checks_run',{}).items() if str(v).startswith('VIOLATION')})))")
  [ -z "$CHECKS" ] && { echo "seed=$S no recorded check"; continue; }
  tools/seedcheck.sh $S $CHECKS | awk '{ if ($3=="exit=1") print $1, $2, "caught", $5; else print $1, $2, "MISSED", $3, $5 }'
done
