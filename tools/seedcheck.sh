#!/bin/bash
# tools/seedcheck.sh <seed id> <check id>...  : applies /verif/seeded/<id>/patch.diff to /repo, runs the quick checks, restores /repo
ID=$1; shift
cd /repo && [ -z "$(git status --porcelain)" ] || { echo "repo not clean"; exit 2; }
git apply /verif/seeded/$ID/patch.diff || { echo "patch does not apply"; exit 2; }
# the evidence files are rewritten by every run: keep the clean-tree ones
EVBAK=$(mktemp -d); cp -a /verif/evidence/. $EVBAK/
for C in "$@"; do
  S=$(date +%s)
  OUT=$(cd /verif && ./check $C quick 2>&1); RC=$?
  V=$(echo "$OUT" | grep -c "^VIOLATION")
  echo "seed=$ID check=$C exit=$RC violations=$V wall=$(( $(date +%s)-S ))s first: $(echo "$OUT" | grep '^violation' | head -1 | cut -c1-260)"
done
git -C /repo checkout -- .
rm -f /verif/replays/*
cp -a $EVBAK/. /verif/evidence/; rm -rf $EVBAK
