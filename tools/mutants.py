#!/usr/bin/env python3
"""Applies deliberate property-breaking changes to /repo one at a time, runs the named checks
(quick tier) and reports whether each check raised a VIOLATION. /repo is restored afterwards.
usage: tools/mutants.py [name-substring ...]"""
import subprocess, sys, os, json, time

M = [
 # (name, file, old, new, [properties expected to catch it])
 ("c20-quorum-n+f", "quorum.go", "float64(n+f+1)", "float64(n+f)", ["C20"]),
 ("c19-bit-index", "security/crypto/bitfield.go", "i := int(id) - 1", "i := int(id)", ["C19"]),
 ("c17-parent-pos", "internal/tree/tree.go", "parentPos := (myPos - 1) / t.branchFactor", "parentPos := myPos / t.branchFactor", ["C17"]),
 ("c16-rr-no-plus1", "protocol/leaderrotation/common.go", "view%hotstuff.View(numReplicas) + 1", "view%hotstuff.View(numReplicas)", ["C16"]),
 ("c14-pop-head", "core/eventloop/queue.go", "\t\tq.head++\n\t\tif q.head == len(q.entries) {\n\t\t\tq.head = 0\n\t\t}\n\t}\n\n\treturn entry, true", "\t\tq.head++\n\t\tif q.head >= len(q.entries)-1 {\n\t\t\tq.head = 0\n\t\t}\n\t}\n\n\treturn entry, true", ["C14"]),
 ("c14-prio-order", "core/eventloop/eventloop.go", "\t\tif handler.opts.priority {\n\t\t\tpriorityList", "\t\tif !handler.opts.priority {\n\t\t\tpriorityList", ["C14"]),
 ("c08-dedup-id-only", "protocol/synchronizer/timeout_collector.go", "return t.View == timeout.View && t.ID == timeout.ID", "return t.ID == timeout.ID", ["C08"]),
 ("c08-old-views", "protocol/synchronizer/timeout_collector.go", "return t.View < currentView })", "return t.View <= currentView })", ["C08"]),
 ("c02-quorum-minus", "security/cert/auth.go", "\tquorumSize := c.config.QuorumSize()\n\tif participants.Len() < quorumSize {\n\t\treturn fmt.Errorf(\"%d participants cannot satisfy the quorum requirement: %d\", participants.Len(), quorumSize)\n\t}\n\tblock, ok", "\tquorumSize := c.config.QuorumSize()\n\tif participants.Len() < quorumSize-1 {\n\t\treturn fmt.Errorf(\"%d participants cannot satisfy the quorum requirement: %d\", participants.Len(), quorumSize)\n\t}\n\tblock, ok", ["C02", "C20"]),
 ("c11-key-no-signers", "security/cert/cache.go", "\t_, _ = key.Write(hash[:])\n\twriteParticipants(&key, signature)\n\t_, _ = key.Write(signature.ToBytes())\n\n\tif cache.check(key.String()) {\n\t\treturn nil\n\t}\n\n\tif err := cache.impl.Verify", "\t_, _ = key.Write(hash[:])\n\t_, _ = key.Write(signature.ToBytes())\n\n\tif cache.check(key.String()) {\n\t\treturn nil\n\t}\n\n\tif err := cache.impl.Verify", ["C11", "C02"]),
 ("c13-extends-ge", "security/blockchain/blockchain.go", "for ok && current.View() > target.View() {", "for ok && current.View() >= target.View() {", ["C13", "C04"]),
 ("c04-lock-ge", "protocol/rules/chainedhotstuff.go", "if block2.View() > hs.bLock.View() {", "if block2.View() >= hs.bLock.View() && block2 != hs.bLock {", ["C04"]),
 ("c04-fast-drop-consecutive", "protocol/rules/fasthotstuff.go", "parent.Parent() == grandparent.Hash() && parent.View() == grandparent.View()+1 {", "parent.Parent() == grandparent.Hash() {", ["C04"]),
 ("c04-simple-lock", "protocol/rules/simplehotstuff.go", "if parent.View() < hs.locked.View() {", "if parent.View()+1 < hs.locked.View() {", ["C04"]),
 ("c03-vote-twice", "protocol/consensus/voter.go", "if blockView <= v.lastVotedView {", "if blockView < v.lastVotedView {", ["C03"]),
 ("c03-no-stopvoting", "protocol/synchronizer/synchronizer.go", "\tif s.voter.StopVoting(currentView) {", "\tif false && s.voter.StopVoting(currentView) {", ["C03"]),
 ("c01-commit-ge", "protocol/consensus/committer.go", "if committedBlock.View() >= block.View() {", "if committedBlock.View() > block.View() {", ["C01", "C06"]),
 ("c07-highqc-inverted", "protocol/viewstates.go", "if newBlock.View() <= s.highQC.View() {", "if newBlock.View() > s.highQC.View() && s.highQC.View() > 0 {", ["C07"]),
 ("c07-skip-viewchange-event", "protocol/synchronizer/synchronizer.go", "\ts.eventLoop.AddEvent(hotstuff.ViewChangeEvent{View: newView, Timeout: timeout})", "\tif !timeout {\n\t\ts.eventLoop.AddEvent(hotstuff.ViewChangeEvent{View: newView, Timeout: timeout})\n\t}", ["C07"]),
 ("c05-no-advance-on-current-view", "protocol/synchronizer/synchronizer.go", "\tif view < s.state.View() {\n\t\treturn\n\t}", "\tif view <= s.state.View() && timeout {\n\t\treturn\n\t}", ["C05"]),
 ("c01-chained-no-safety", "protocol/rules/chainedhotstuff.go", "\t\tif hs.blockchain.Extends(block, hs.bLock) {\n\t\t\tsafe = true", "\t\tif true || hs.blockchain.Extends(block, hs.bLock) {\n\t\t\tsafe = true", ["C04", "C01"]),
 ("c15-no-resignal", "internal/proto/clientpb/cmdcache.go", "\t\t\tif c.hasFullBatch() {\n\t\t\t\tc.signalReady()\n\t\t\t}\n\n\t\t\tc.mut.Unlock()", "\t\t\tc.mut.Unlock()", ["C15"]),
 ("c15-dup-filter-lt", "internal/proto/clientpb/cmdcache.go", "return seqNum >= cmd.GetSequenceNumber()", "return seqNum > cmd.GetSequenceNumber()", ["C15"]),
 ("c15-extract-keeps-prefix", "internal/proto/clientpb/cmdcache.go", "c.cache = c.cache[extracted:]", "c.cache = c.cache[len(batch.Commands):]", ["C15"]),
 ("c14-delayed-dup", "core/eventloop/eventloop.go", "\tif events, ok = el.waitingEvents[t]; ok {\n\t\tdelete(el.waitingEvents, t)\n\t}", "\tif events, ok = el.waitingEvents[t]; !ok {\n\t\tdelete(el.waitingEvents, t)\n\t}", ["C14"]),
 ("c09-vm-quorum-off-by-one", "protocol/votingmachine/votingmachine.go", "if len(votes) < vm.config.QuorumSize() {", "if len(votes) < vm.config.QuorumSize()-1 {", ["C09", "C07"]),
 ("c09-kauri-no-overlap-check", "protocol/comm/kauri/kauri.go", "\t\tcanMerge = !b.Participants().Contains(i)", "\t\tcanMerge = true || !b.Participants().Contains(i)", ["C09"]),
 ("c12-drop-aggqc-view", "internal/proto/hotstuffpb/convert.go", "return &AggQC{QCs: pQCs, Sig: QuorumSignatureToProto(aggQC.Sig()), View: uint64(aggQC.View())}", "return &AggQC{QCs: pQCs, Sig: QuorumSignatureToProto(aggQC.Sig())}", ["C12"]),
 ("c12-ts-truncate", "internal/proto/hotstuffpb/convert.go", "Timestamp: timestamppb.New(block.Timestamp()),", "Timestamp: timestamppb.New(block.Timestamp().Truncate(1000)),", ["C12"]),
 ("c18-checkcommits-gt2", "twins/scenario.go", "if len(commitCount) != 1 {", "if len(commitCount) > 2 {", ["C18"]),
 ("c06-exec-order", "protocol/consensus/committer.go", "\tcm.eventLoop.AddEvent(hotstuff.CommitEvent{Block: block})\n", "\tif block.View()%5 != 4 {\n\t\tcm.eventLoop.AddEvent(hotstuff.CommitEvent{Block: block})\n\t}\n", ["C06", "C01"]),
 ("c04-chained-drop-view", "protocol/rules/chainedhotstuff.go", "\t\tblock2.Parent() == block3.Hash() &&\n\t\tblock2.View() == block3.View()+1 {", "\t\tblock2.Parent() == block3.Hash() {", ["C04"]),
]

REVERTS = [
 ("2961902", ["C14"]), ("3b96baf", ["C14"]), ("8b049e3", ["C08"]), ("1551696", ["C08"]), ("90b2f43", ["C08"]), ("b8d83d7", ["C08"]),
 ("603c7aa", ["C02", "C07"]), ("57f5b13", ["C02", "C09"]), ("3f43552", ["C11", "C02"]), ("1641b68", ["C13"]), ("377663b", ["C18"]),
 ("3f84678", ["C10"]), ("38a1e4f", ["C10"]), ("a23bdb5", ["C10"]), ("ac63bc9", ["C10"]), ("26ea053", ["C10"]), ("1f3eb0f", ["C09"]), ("3f1c6f2", ["C03"]), ("819b175", ["C02"]), ("0dd871d", ["C05"]), ("ddc11b9", ["C07", "C02", "C10"]),
]

def sh(cmd, **kw):
    return subprocess.run(cmd, shell=True, capture_output=True, text=True, **kw)

def main():
    sel = sys.argv[1:]
    assert sh("git -C /repo status --porcelain").stdout.strip() == "", "repo not clean"
    results = []
    for name, file, old, new, props in M:
        if sel and not any(s in name for s in sel):
            continue
        p = os.path.join("/repo", file)
        src = open(p).read()
        if src.count(old) != 1:
            print(f"{name}: PATTERN NOT FOUND ({src.count(old)})"); results.append((name, "pattern", {})); continue
        open(p, "w").write(src.replace(old, new))
        try:
            b = sh("cd /repo && GOFLAGS=-mod=mod GOPROXY=off go build ./...")
            if b.returncode != 0:
                print(f"{name}: does not compile\n{b.stderr[:300]}"); continue
            res = {}
            for pr in props:
                t = time.time()
                c = sh(f"cd /verif && ./check {pr} quick")
                res[pr] = (c.returncode, "VIOLATION" in c.stdout, round(time.time() - t, 1))
            print(name, res, flush=True)
            results.append((name, "ran", res))
        finally:
            sh("git -C /repo checkout -- .")
    for commit, props in REVERTS:
        name = "revert-" + commit
        if sel and not any(x in name for x in sel):
            continue
        a = sh(f"cd /repo && git show {commit} | git apply -R")
        if a.returncode != 0:
            print(name, "cannot reverse-apply", a.stderr[:200]); results.append((name, "pattern", {})); sh("git -C /repo checkout -- ."); continue
        try:
            b = sh("cd /repo && GOFLAGS=-mod=mod GOPROXY=off go build ./...")
            if b.returncode != 0:
                print(f"{name}: does not compile"); continue
            res = {}
            for pr in props:
                t = time.time()
                c = sh(f"cd /verif && ./check {pr} quick")
                res[pr] = (c.returncode, "VIOLATION" in c.stdout, round(time.time() - t, 1))
            print(name, res, flush=True)
            results.append((name, "ran", res))
        finally:
            sh("git -C /repo checkout -- .")
    sh("rm -f /verif/replays/*")
    bad = [n for n, s, r in results if s != "ran" or not all(v[0] == 1 and v[1] for v in r.values())]
    print("MISSED:", bad)

main()
