#!/usr/bin/env python3
"""Applies deliberate property-breaking changes to /repo one at a time, runs the named checks
(quick tier) and reports whether each check raised a VIOLATION. /repo is restored afterwards.
usage: tools/mutants.py [name-substring ...]"""
import subprocess, sys, os, json, time

M = [
 # (name, file, old, new, [properties expected to catch it])
 ("c20-quorum-n+f", "quorum.go", "float64(n+f+1)", "float64(n+f)", ["C20"]),
 ("c19-bit-index", "security/crypto/bitfield.go", "i := int(id) - 1", "i := int(id)", ["C19"]),
 ("c17-parent-pos", "internal/tree/tree.go", "parentPos := (myPos - 1) / t.branchFactor", "parentPos := myPos / t.branchFactor", ["C17"]),
 ("c16-rr-no-plus1", "protocol/leaderrotation/common.go", "view%hotstuff.View(numReplicas) + 1", "view%hotstuff.View(numReplicas)", ["C16"]),
 ("c14-pop-head", "core/eventloop/queue.go", "\t\tq.head++\n\t\tif q.head == len(q.entries) {\n\t\t\tq.head = 0\n\t\t}\n\t}\n\treturn entry, true", "\t\tq.head++\n\t\tif q.head >= len(q.entries)-1 {\n\t\t\tq.head = 0\n\t\t}\n\t}\n\treturn entry, true", ["C14"]),
 ("c14-prio-order", "core/eventloop/eventloop.go", "\t\tif handler.opts.priority {\n\t\t\tpriorityList", "\t\tif !handler.opts.priority {\n\t\t\tpriorityList", ["C14"]),
 ("c08-dedup-id-only", "protocol/synchronizer/timeout_collector.go", "return t.View == timeout.View && t.ID == timeout.ID", "return t.ID == timeout.ID", ["C08"]),
 ("c08-old-views", "protocol/synchronizer/timeout_collector.go", "return t.View < currentView })", "return t.View <= currentView })", ["C08"]),
 ("c02-quorum-minus", "security/cert/auth.go", "\tquorumSize := c.config.QuorumSize()\n\tif participants.Len() < quorumSize {\n\t\treturn fmt.Errorf(\"%d participants cannot satisfy the quorum requirement: %d\", participants.Len(), quorumSize)\n\t}\n\tblock, ok", "\tquorumSize := c.config.QuorumSize()\n\tif participants.Len() < quorumSize-1 {\n\t\treturn fmt.Errorf(\"%d participants cannot satisfy the quorum requirement: %d\", participants.Len(), quorumSize)\n\t}\n\tblock, ok", ["C02", "C20"]),
 ("c11-key-no-signers", "security/cert/cache.go", "\t_, _ = key.Write(hash[:])\n\twriteParticipants(&key, signature)\n\t_, _ = key.Write(signature.ToBytes())\n\n\tif cache.check(key.String()) {\n\t\treturn nil\n\t}\n\n\tif err := cache.impl.Verify", "\t_, _ = key.Write(hash[:])\n\t_, _ = key.Write(signature.ToBytes())\n\n\tif cache.check(key.String()) {\n\t\treturn nil\n\t}\n\n\tif err := cache.impl.Verify", ["C11", "C02"]),
 ("c13-extends-ge", "security/blockchain/blockchain.go", "for ok && current.View() > target.View() {", "for ok && current.View() >= target.View() {", ["C13", "C04"]),
 ("c04-lock-ge", "protocol/rules/chainedhotstuff.go", "if block2.View() > hs.bLock.View() {", "if block2.View() >= hs.bLock.View() && block2 != hs.bLock {", ["C04"]),
 ("c04-fast-drop-consecutive", "protocol/rules/fasthotstuff.go", "parent.Parent() == grandparent.Hash() && parent.View() == grandparent.View()+1 {", "parent.Parent() == grandparent.Hash() {", ["C04"]),
 ("c04-simple-lock", "protocol/rules/simplehotstuff.go", "if parent.View() < hs.locked.View() {", "if parent.View()+1 < hs.locked.View() {", ["C04"]),
 ("c04-chained-drop-view", "protocol/rules/chainedhotstuff.go", "\t\tblock2.Parent() == block3.Hash() &&\n\t\tblock2.View() == block3.View()+1 {", "\t\tblock2.Parent() == block3.Hash() {", ["C04"]),
]

def sh(cmd, **kw):
    return subprocess.run(cmd, shell=True, capture_output=True, text=True, **kw)

def main():
    sel = sys.argv[1:]
    assert sh("git -C /repo status --porcelain").stdout.strip() == "", "repo not clean"
    results = []
    for name, file, old, new, props in M:
        if sel and not any(s in name for s in sel):
            continue
        p = os.path.join("/repo", file)
        src = open(p).read()
        if src.count(old) != 1:
            print(f"{name}: PATTERN NOT FOUND ({src.count(old)})"); results.append((name, "pattern", {})); continue
        open(p, "w").write(src.replace(old, new))
        try:
            b = sh("cd /repo && GOFLAGS=-mod=mod GOPROXY=off go build ./...")
            if b.returncode != 0:
                print(f"{name}: does not compile\n{b.stderr[:300]}"); continue
            res = {}
            for pr in props:
                t = time.time()
                c = sh(f"cd /verif && ./check {pr} quick")
                res[pr] = (c.returncode, "VIOLATION" in c.stdout, round(time.time() - t, 1))
            print(name, res, flush=True)
            results.append((name, "ran", res))
        finally:
            sh("git -C /repo checkout -- .")
    sh("rm -f /verif/replays/*")
    bad = [n for n, s, r in results if s != "ran" or not all(v[0] == 1 and v[1] for v in r.values())]
    print("MISSED:", bad)

main()
