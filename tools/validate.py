#!/usr/bin/env python3-vt
"""Validate MANIFEST.json and all evidence files against the schemas in /root/.vp."""
import json, sys, glob, jsonschema
ok = True
ms = json.load(open('/root/.vp/MANIFEST.schema.json'))
es = json.load(open('/root/.vp/EVIDENCE.schema.json'))
try:
    jsonschema.validate(json.load(open('/verif/MANIFEST.json')), ms); print("MANIFEST ok")
except Exception as e:
    ok = False; print("MANIFEST INVALID:", str(e)[:400])
for f in sorted(glob.glob('/verif/evidence/*.json')):
    try:
        jsonschema.validate(json.load(open(f)), es); print(f, "ok")
    except Exception as e:
        ok = False; print(f, "INVALID:", str(e)[:400])
sys.exit(0 if ok else 1)
