#!/usr/bin/env python3
"""Generates /verif/MANIFEST.json from the table below (kept in one place so it stays valid)."""
import json

ENV = "export GOFLAGS=-mod=mod GOPROXY=off; "
E1TEXT = 'Closed system of 4 real replicas (optionally one equivocating twin pair or a scripted Byzantine replica) wired from the production constructors; transitions are one real handler run to quiescence (delivery, duplicate delivery, loss, expiry of a one-shot local timer that the replica has armed, crafted message). Explored: all interleavings at horizon 1 (2 thorough) and every execution within 1 (2) deviations of the lock-step FIFO schedule at horizon 6, for the three rulesets, with canonical-state merging and replay-determinism checks; monitors evaluate the property on every transition.'
E1NOTE = 'Synchronous vote verification, EdDSA, harness clock in block hashes; n=4 (n=7 only in thorough C05); fast-hotstuff never commits on this tree (known finding C05), so its commit-related verdicts are vacuous and the evidence says so.'
CLAIMED = {
 # id: (engine, technique, level text, level note, design ref)
 "C20": ("enum", "exhaustive enumeration of every n up to the bound on the real functions + threshold probes through the real certificate checks",
         "Every cluster size 1..10^6 (10^7 thorough) is evaluated on the real NumFaulty/QuorumSize; for n<=13 the real certificate checks, collectors and RuntimeConfig are probed with q-1 and q distinct signers. Exhaustive within the bound; the all-n statement beyond the bound is commentary only.",
         "Trusts Go integer/float arithmetic; n beyond the bound is not covered.", "§4 C20"),
 "C19": ("enum", "exhaustive enumeration of insertion/query sequences, byte strings and signer-list combinations against a map-based reference set",
         "All Add/query sequences up to length 4 (6 thorough) over a byte-boundary id alphabet, every id 1..300, every byte string of length <=2 (and 3-byte extensions) through BitfieldFromBytes, and every ordered signer list up to n=5 through the real Sign/Combine of all three schemes (flat and nested) are compared with a map[ID]bool.",
         "IDs above 300 and id 0 (outside the configured-replica domain) are not covered; Multi iteration order is not required by the property and not checked.", "§4 C19"),
 "C17": ("enum", "exhaustive enumeration of tree configurations, oracle = relation assembled from every replica's own Parent()",
         "n in 1..40 x branch factor 2..6 with identity, reversed, all rotations, all single transpositions and all permutations for n<=7 (8 thorough); every accessor of every replica's Tree is compared with the parent relation built from all replicas' Parent().",
         "Random permutations for n>8 are replaced by the stated deterministic families; bf>6 and n>40 not covered.", "§4 C17"),
 "C16": ("enum", "exhaustive enumeration of (n, view) for the stateless schemes and of (commit head, signer set, proposers, seed, query) for carousel/reputation on independent instances",
         "Round-robin/fixed/tree-leader: n in 1..64, views 0..1024 (4096 thorough) plus 64 views around 2^32, 2^63 and 2^64-1, on every replica's own instance, incl. the bijection over any n consecutive views. Carousel: every head signer set >= quorum x last-f proposers x 3 seeds x 6 views around the activation point for n in {4,7}; reputation: all head sequences of length 2 (3 thorough), two instances compared. Carousel over time: every sequence of <=5 (n=4) / 4 (n=7) operations {commit next block, ask view a-1 / a / a+1 around the activation view a} on two long-lived instances: same answers, configured replica, and a valid candidate (signer of the head's certificate, not one of the last f proposers) whenever the carousel is active for the head committed at that moment.",
         "Carousel/reputation signer sets are structurally valid quorums (validity of the signatures is C02's subject); windows crossing the uint64 wrap are excluded.", "§4 C16"),
 "C14": ("seqmc+schedmc", "exhaustive operation-sequence enumeration on the real queue / EventLoop against a reference deque and FIFO/once/priority/deferral invariants; preemption-bounded schedule enumeration for concurrent producers",
         "Queue: every push/pop sequence of length <= 2c+4 for capacities 1..4 (6 thorough) against a drop-oldest deque. EventLoop: every operation sequence to depth 6 (7 thorough) over 16 operations (add, defer, register plain/priority/run-in-add/adding/unregistering/re-deferring handlers, unregister incl. stale double calls, tick) on capacities 64 and 2; overflow reports compared with the oldest pending events. Concurrent: 2-3 producers, the consumer in Run and a canceller under the controlled scheduler, <=2 (3) preemptions, incl. overflow at capacity 2.",
         "Handler order inside one priority class and handlers (un)registered during the dispatch of the same event are unspecified by the property and treated as don't-care.", "§4 C14"),
 "C08": ("seqmc", "explicit-state search over timeout-message sequences on a real wired Synchronizer (successor = replay on a fresh replica + 1 message), canonical-state merging, oracle = per-view set of correctly signed senders",
         "All sequences over an alphabet of 15-25 timeout messages (every sender x views {v0-1,v0,v0+1,v0+50}, own local timeout, relayed / wrong-view / unsigned view signatures, garbage / absent message signatures and missing QC under the aggregate rule, sync info carrying a TC) delivered to one real replica: unmerged to depth 3 (4) and with canonical-state merging to depth 5-7 (7-9 thorough), both timeout rules, replica at and ahead of the stale view, cache on/off, n=4 (n=7 thorough). Every emitted certificate is verified by all other replicas and fed to a fresh replica.",
         "EdDSA only; the replica under test is never the next leader; repeated certificates for an already certified view are don't-care.", "§4 C08"),
 "C02": ("enum", "bounded-exhaustive enumeration of crafted certificates (signature-descriptor sequences, honest subsets, single and double structural mutations) against validity known by construction",
         "QC, TC, aggregate QC (+ reported high QC) and proposals via VerifyAnyQC, for ECDSA/EdDSA/BLS12, cache 0/1/8, n in 1..4 exhaustively over descriptor sequences up to length q+1 (valid, foreign-message, relabelled, unknown signer, empty) x claimed view/hash variants, n=7 (5..13 thorough) over all honest subsets of size q-1/q/n and all single+double mutations; each certificate verified cold and warm by a replica that did not build it; completeness through the real Create* API at every replica. BLS rogue-key registration: a Byzantine replica registers x*G minus the other keys with every kind of announced proof of possession (absent, garbage, valid for x*G, each honest replica's proof replayed), forged same-message QC/TC naming all replicas, every honest verifier, cache on/off, before/after honest certificates were verified (n=4; n=7 thorough).",
         "Validity of each signature entry is known by construction; panics are treated as rejection here and reported under C10; BLS limited to n<=7.", "§4 C02"),
 "C11": ("seqmc+schedmc", "explicit-state search over request sequences issued to a cached and an uncached authority (state = LRU content and order), differential verdict oracle",
         "Every sequence up to depth 3 (4 thorough) over ~55 requests (sign, verify with replayed/relabelled signatures and other messages, batch-verify with same-concatenation / swapped / other-id batches, combine, QC/TC/AggQC verification incl. relabelled views and swapped QCs, nil signatures) for capacities 1..4 (1..8), all three schemes (BLS one level shallower). Concurrent part: every ordered pair of verification requests (at least one rejected by the reference; all pairs thorough) issued from two goroutines to one cached authority, every schedule of the cache's critical sections with <=2 preemptions, capacities 1 and 4, ECDSA/EdDSA.",
         "The uncached authority is the reference; signatures are produced once and given to both.", "§4 C11"),
 "C13": ("seqmc", "exhaustive enumeration of block forests, store/get sequences and commit histories on the real Blockchain and Committer against a reference forest",
         "Extends for all block pairs of every forest with <=5 (6 thorough) blocks incl. forks, equal views on different branches and missing ancestors; every store/re-store/get sequence to depth 5 (6) with honest, lying and silent peers whose replies pass through the real RequestBlockQF; every parent-first store order x every commit history of every forest with <=4 (5) blocks through the real Committer: abort events vs. committed chain, commit order = chain order.",
         "Commit targets extend the previous commit (guaranteed by the rulesets, C01/C04); fetch replies enter at the quorum function, not at a socket.", "§4 C13"),
 "C04": ("seqmc", "exhaustive enumeration of block forests x presentation orders x flows on the three real rulesets against an independent reference of the published rules",
         "Every forest of <=3 (4 thorough) blocks with parent and QC link each in {genesis, earlier block, missing}, views <=4 (5) increasing along both links, all presentation orders, per-block mode {proposal flow, fetched}, VoteRule view argument {v-1,v,v+1}, AggQC absent/present; plus the two-branch family (main chain + one fork, every fork point and view interleaving, one optional gap) up to 7 (9) blocks. Compared per step: vote verdict, decided block, lock, and the structural clause on every decision.",
         "Random forests beyond the bound are not sampled (outside this family); QC objects carry the view of the block they name.", "§4 C04"),
 "C12": ("enum", "bounded-exhaustive product grammar of protocol objects through ToProto -> Marshal -> Unmarshal -> FromProto, oracle = identity of hash / bytes-to-sign / participants / verdict",
         "Signatures (absent, empty, 1..n signers, non-prefix signer set), partial certs, QCs (views 0/1/max x hashes zero/genesis/real), TCs, aggregate QCs with 0..n entries incl. ids 0 and 2^32-1 and two different certificates for the same block, sync info in all 16 combinations of QC {absent, quorum, signature-less genesis, signature-less other block} x TC x AggQC, timeout messages with/without message signature, blocks over parent x batch (nil, empty, 1, 3 commands incl. empty data) x QC x view x proposer x 6 timestamps (epoch, 1ns, pre-1970, sub-microsecond, non-UTC zone, year 9999), proposals with/without AggQC; blocks additionally fetched by hash through the quorum function; three schemes, n in {1,2,4} ({1,2,3,4,7} thorough).",
         "The product is thinned by a fixed parity rule (every value still meets every other); sender id of a timeout is taken from the connection as the server does.", "§4 C12"),
 "C18": ("enum+seqmc", "exhaustive draining of the real scenario generator for every setting in the box (below a stated cap) and exhaustive enumeration of commit-log combinations through the real verdict function",
         "Generator: all 204 settings with nodes<=5, twins<=2, partitions<=3, views<=4 whose announced count <= 2*10^5 (3*10^6 thorough): yielded == announced, no repetition, two generators agree, EOF is sticky, every view well-formed, shuffle with seeds 0..2 reproducible and a permutation, JSON writer/reader round trip. Executor: all 40^k combinations of commit logs (length<=3 over 3 blocks) for 4 layouts of up to 4 nodes incl. a twin pair vs. a reference 'first position where two non-twin replicas differ'.",
         "Settings above the cap are listed in the evidence as not covered.", "§4 C18"),
 "C10": ("enum", "bounded-exhaustive field grammar of wire messages delivered through the real service handlers and event loop of a running replica, oracle = no panic + protocol state unchanged for messages in which nothing verifies",
         "~45k messages per configuration (proposal, vote, new-view, timeout, block fetch, Kauri contribution; every optional field absent/present, 7 hash forms, 6 views, 14-17 signature variants per scheme, 4 TC views, AggQC maps nil/empty/id 0/unknown id/nil entry/mixed/all-genesis; under the aggregate rule additionally every genuine aggregate QC x every block-QC variant), each first passed through protobuf marshal/unmarshal, delivered from leader / other / unknown / unidentified peers to a fresh and a certificate-advanced replica, 3 schemes x cache on/off x 3 rulesets; thorough repeats every message from every kind of peer.",
         "Messages enter at the gorums service implementation, not at a socket; TLS identity is replaced by connection metadata; panics are located by their innermost repository frame.", "§4 C10"),
 "C09": ("seqmc", "exhaustive enumeration of message arrival orders at a real vote collector (clique leader and Kauri tree node) against a reference count of distinct valid voters",
         "Clique: every permutation of {proposal, 1..3 honest votes} plus every subset of <=2 (3 thorough) of 9 hostile votes (duplicate, forged, other-block, two-signer, own-signature-twice, non-member, unknown block, old block, relabelled) delivered to a fresh replica that is next leader, n=4, EdDSA and ECDSA (n=7 thorough); votes before the proposal take the deferred path; every order with at most one hostile vote is repeated with a view change by a genuine timeout certificate at every position (the collector has left the block's view). Kauri: every sequence up to length 4 (5) of child contributions {full aggregate, partial, other-block, wrong view, no signature, overlapping} with the aggregation timer at every position, root and interior node, n=4 (7). Every emitted QC / contribution is verified by another replica.",
         "Asynchronous verification (one goroutine per vote) is explored under the controlled scheduler for 4 (5) delivery orders with <=1 (2) preemptions; BLS is not used here.", "§4 C09"),
 "C01": ("clustermc", "explicit-state search over the closed system of real replicas (deviation-bounded + full interleavings at small horizon), invariant monitors on every transition",
         "%s Oracle: per replica the committed sequence is a hash-linked chain from genesis with increasing views and no repeats, any two honest replicas' sequences are prefix-related, CommittedBlock equals the last commit." % E1TEXT, E1NOTE, "§2, §4 C01"),
 "C03": ("clustermc", "explicit-state search over the closed system of real replicas; monitor on every signing event of every honest replica (ground truth under the signing primitive)",
         "%s Oracle: every vote is for a block proposed by (and received from) the leader of its view, whose QC is backed by a ground-truth quorum for its parent, with view above the certified block; vote views strictly increase and never fall at or below a view the replica signed a timeout for. Single-replica part: every input sequence to depth 5 (7) over 21 proposals (with and without an aggregate QC) / new-views / local timeouts from an environment holding all other keys, the replica's own proposals counted as votes." % E1TEXT, E1NOTE, "§2, §4 C03"),
 "C05": ("clustermc", "exhaustive enumeration of prefix states (from the explicit-state search) x crash sets, each followed by the deterministic synchronous suffix on the real replicas",
         "Prefix set: canonical states of the deviation-bounded exploration at horizon 3 (5 thorough) with loss, reordering, duplicates, timer expiries and twin equivocation, capped as reported, plus the 2-deviation (3 thorough) family restricted to early timers and lost timeout messages; crash sets: none and every single replica; oracle: every member of the live quorum commits a new block before view heal+3*ChainLength+2; plus the fault-free 12-view lock-step run (round-robin and fixed leader) with commits trailing by exactly the chain length; plus the isolation family: one replica cut off for k in {4,8,12} ({2..20} thorough) views led by every cyclic pattern of period 4 over {1,2,3} ({1..4}), then re-connected with leaders rotating over all replicas or a quorum containing it: every replica commits a new block within 3k+3*ChainLength+2 views; plus the two-against-two partition family (no quorum on either side while every one-shot view timer fires 1..4 times, then healed).",
         "The bound is fixed in the harness; heal view = highest view in the prefix state + 2; fast-hotstuff fails as a known finding (behaviour asserted by TestAdvanceView). The isolation bound is linear in the lag k because a replica moves one view per certificate (C07); measured worst case on the unchanged tree 2.5 views per view of lag.", "§4 C05"),
 "C06": ("clustermc", "explicit-state search over the closed system of real replicas with real ClientIO / CommandCache; digest-explaining monitor on every transition",
         "%s Oracle: one ExecuteEvent per committed block in chain order, the application count and digest are explained by executing the committed commands once in order, no (client, seq) twice, executed sequences of honest replicas prefix-related." % E1TEXT, E1NOTE + " In addition every chain of 3 (4) blocks over 12 batches of 3 commands (so that commands repeat across committed blocks) is committed (also with one block withheld and not fetchable) through the real Committer into the real ClientIO with real ExecCommand callers waiting (one per command, one for a command that is only in an abandoned sibling): at most one outcome per caller, success only in the step the command is executed.", "§2, §4 C06"),
 "C07": ("clustermc", "explicit-state search over the closed system of real replicas; monotonicity and evidence monitors on every transition against the ground truth of real signatures",
         "%s Oracle: view, high QC view (and its block's view), high TC view and committed view never decrease; every view increment is signalled by a consecutive ViewChangeEvent and is justified by a ground-truth quorum of votes (block of view >= v) or timeouts (view >= v); every new high QC / high TC is backed by real signatures. Single-replica part: every input sequence to depth 4 (5) over 63 (simple rule) / 185 (aggregate rule) new-view messages, timeout messages and proposals carrying every combination of QC x TC x aggregate QC each in {absent, genuine (two views), sub-quorum, relabelled, genesis block with another view}, validity known by construction, with and without a signature cache (unmerged, depth 3 / 2)." % E1TEXT, E1NOTE, "§2, §4 C07"),
 "C15": ("schedmc", "exhaustive operation-sequence enumeration and preemption-bounded schedule enumeration of the real CommandCache under a controlled cooperative scheduler (sync/select/go rewritten mechanically), list+mark reference model",
         "(a) every sequence to depth 5 (6 thorough) over {add(c,s) for 2 clients x 3 sequence numbers, proposed(c,s), get} for batch sizes 1..3, a blocked Get being a scheduler-visible state that must end exactly when the reference has a full batch (or on cancellation); (b) nine concurrent scenarios (1-2 adders, marker, 1-2 getters, canceller of all requests or of the first request only with a second, never-cancelled request following): every schedule with <=2 (3) preemptions; oracle: full batches of distinct accepted commands in per-client order, nothing twice, nothing lost, no lost wake-up.",
         "Scheduling points are the lock, select and go operations of the rewritten files; unsynchronised accesses are outside this check (the repository's own race-detector tests cover them).", "§3, §4 C15"),
}
PENDING = {}  # id -> reason (properties not claimed)

def main():
    props = [json.loads(l) for l in open('/verif/properties.jsonl')]
    checks = []
    na = []
    for p in props:
        pid = p['id']
        if pid in CLAIMED:
            eng, tech, text, note, ref = CLAIMED[pid]
            checks.append({
                "property_id": pid,
                "quick_cmd": f"./check {pid} quick",
                "thorough_cmd": f"./check {pid} thorough",
                "evidence_file": f"/verif/evidence/{pid}.json",
                "replay_cmd_template": f"./check {pid} quick --replay {{path}}",
                "engine": eng,
                "level_claimed": {"category": "model_checking", "text": text, "design_ref": ref},
                "level_note": note,
                "technique": tech,
            })
        else:
            na.append({"property_id": pid, "reason": PENDING.get(pid, "check not built yet in this session; see DESIGN.md §4 for the planned bounded-exhaustive check")})
    m = {
        "version": 1,
        "setup_cmd": "./setup.sh",
        "hooks": {
            "guard": "verif",
            "enable": "go build -tags verif -overlay <generated>/overlay.json (accessor files and rewritten copies are overlaid at build time by /verif/tools/overlaygen; nothing is committed to /repo)",
            "baseline_off_cmd": "cd /repo && GOFLAGS=-mod=mod GOPROXY=off go test -json -vet=off -count=1 -timeout 25m ./...",
            "source_commits": [],
            "add_only": True,
        },
        "engines": [
            {"name": "clustermc", "path": "harness/cluster", "serves_properties": ["C01", "C03", "C05", "C06", "C07"], "kind_free_text": "explicit-state search over a closed system of n real replicas (transitions = one real handler run)"},
            {"name": "schedmc", "path": "harness/mcrt", "serves_properties": ["C09", "C14", "C15"], "kind_free_text": "cooperative controlled scheduler over real goroutines, preemption-bounded DFS"},
            {"name": "seqmc", "path": "harness/props", "serves_properties": ["C04", "C08", "C09", "C11", "C13", "C14", "C18"], "kind_free_text": "explicit-state BFS over operation sequences on one real component vs. reference model"},
            {"name": "enum", "path": "harness/props", "serves_properties": ["C02", "C10", "C12", "C16", "C17", "C18", "C19", "C20"], "kind_free_text": "bounded-exhaustive input/configuration enumeration against a ground-truth oracle"},
        ],
        "checks": checks,
        "not_applicable": na,
        "notes": "All checks run the implementation itself (no hand model), rebuilt from /repo's working tree through a go build overlay; exit 2 means the harness could not be built (no verdict).",
    }
    json.dump(m, open('/verif/MANIFEST.json', 'w'), indent=1)
    print(f"claimed {len(checks)}, not claimed {len(na)}")

main()
