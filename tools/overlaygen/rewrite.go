package main

import (
	"bytes"
	"fmt"
)

type rewrite struct {
	file  string
	apply func(path string, src []byte) ([]byte, error)
}

// rewrites lists the repository files that are replaced by mechanically edited copies.
func rewrites(sched bool) []rewrite {
	rws := []rewrite{
		// block.go: the wall clock is part of the block hash; route it through the harness
		// clock (inject/zz_verif_clock.go) so that block hashes are a function of content.
		{file: "block.go", apply: func(_ string, src []byte) ([]byte, error) {
			pat := []byte("time.Now()")
			if n := bytes.Count(src, pat); n != 1 {
				return nil, fmt.Errorf("expected exactly one time.Now() in block.go, found %d", n)
			}
			return bytes.Replace(src, pat, []byte("verifNow()"), 1), nil
		}},
		// synchronizer.go: the harness gives replicas a view timer that never fires (timeouts are
		// explorer-chosen events). A pending time.AfterFunc keeps its closure - and through it the whole
		// replica - reachable from the runtime's timer heap, i.e. every replica ever built by an
		// exploration stays in memory. Route the call through inject/.../zz_verif_timer.go, which
		// creates such never-firing timers already stopped. Memory only: if the line has changed the
		// file is left as it is.
		{file: "protocol/synchronizer/synchronizer.go", apply: func(_ string, src []byte) ([]byte, error) {
			pat := []byte("time.AfterFunc(d, func() {")
			if bytes.Count(src, pat) != 1 {
				return src, nil
			}
			return bytes.Replace(src, pat, []byte("verifAfterFunc(d, func() {"), 1), nil
		}},
		// kauri.go: same reason - the aggregation timer is a goroutine sleeping for the tree's wait time
		// (1000 h in the harness, where its expiry is an explorer-chosen event), which keeps one goroutine
		// and one whole replica alive per Kauri instance ever built.
		{file: "protocol/comm/kauri.go", apply: func(_ string, src []byte) ([]byte, error) {
			pat := []byte("time.Sleep(k.tree.WaitTime())")
			if bytes.Count(src, pat) != 1 {
				return src, nil
			}
			return bytes.Replace(src, pat, []byte("verifSleep(time.Duration(k.tree.WaitTime()))"), 1), nil
		}},
	}
	if sched {
		rws = append(rws, schedRewrites()...)
	}
	return rws
}
