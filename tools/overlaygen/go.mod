module overlaygen

go 1.23
