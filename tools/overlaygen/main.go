// overlaygen builds the go build -overlay file that binds the harness to /repo's
// current working tree:
//   - every file under <verif>/harness is mapped to <repo>/zverif/... (virtual packages
//     inside the module, so they may import internal/...)
//   - every file under <verif>/inject/<pkg>/ is mapped into <repo>/<pkg>/ (in-package
//     accessors, all guarded by //go:build verif)
//   - mechanically rewritten copies of repository files (see rewrite.go) are generated
//     from whatever is in <repo> right now and mapped over the originals.
//
// A rewrite pattern that is absent from the current source is a hard error (exit 2):
// the checks never silently explore un-instrumented code.
package main

import (
	"encoding/json"
	"flag"
	"fmt"
	"os"
	"path/filepath"
	"strings"
)

func die(format string, a ...any) {
	fmt.Fprintf(os.Stderr, "overlaygen: "+format+"\n", a...)
	os.Exit(2)
}

func main() {
	repo := flag.String("repo", "/repo", "repository root")
	verif := flag.String("verif", "/verif", "verif root")
	out := flag.String("out", "", "output directory (overlay.json + rewritten files)")
	sched := flag.Bool("sched", false, "also rewrite sync/go/select in the files explored under the controlled scheduler")
	flag.Parse()
	if *out == "" {
		die("-out required")
	}
	if err := os.MkdirAll(filepath.Join(*out, "rw"), 0o755); err != nil {
		die("%v", err)
	}
	replace := map[string]string{}

	// 1. virtual harness packages
	hroot := filepath.Join(*verif, "harness")
	_ = filepath.Walk(hroot, func(p string, info os.FileInfo, err error) error {
		if err != nil || info.IsDir() || !strings.HasSuffix(p, ".go") {
			return nil
		}
		rel, _ := filepath.Rel(hroot, p)
		replace[filepath.Join(*repo, "zverif", rel)] = p
		return nil
	})
	// 2. in-package injected files
	iroot := filepath.Join(*verif, "inject")
	_ = filepath.Walk(iroot, func(p string, info os.FileInfo, err error) error {
		if err != nil || info.IsDir() || !strings.HasSuffix(p, ".go") {
			return nil
		}
		rel, _ := filepath.Rel(iroot, p)
		dst := filepath.Join(*repo, rel)
		if _, err := os.Stat(filepath.Dir(dst)); err != nil {
			die("inject target package %s does not exist in the repository", filepath.Dir(dst))
		}
		if _, err := os.Stat(dst); err == nil {
			die("inject target %s already exists in the repository", dst)
		}
		replace[dst] = p
		return nil
	})
	// 3. rewritten repository files
	for _, rw := range rewrites(*sched) {
		src := filepath.Join(*repo, rw.file)
		data, err := os.ReadFile(src)
		if err != nil {
			die("rewrite source missing: %v", err)
		}
		res, err := rw.apply(src, data)
		if err != nil {
			die("rewrite of %s failed: %v", rw.file, err)
		}
		dst := filepath.Join(*out, "rw", strings.ReplaceAll(rw.file, "/", "__"))
		if err := os.WriteFile(dst, res, 0o644); err != nil {
			die("%v", err)
		}
		replace[src] = dst
	}
	js, _ := json.MarshalIndent(map[string]any{"Replace": replace}, "", " ")
	if err := os.WriteFile(filepath.Join(*out, "overlay.json"), js, 0o644); err != nil {
		die("%v", err)
	}
}
