package main

func schedRewrites() []rewrite { return nil }
