package main

import (
	"bytes"
	"fmt"
	"go/ast"
	"go/parser"
	"go/printer"
	"go/token"
	"strconv"
)

const mcrtPath = "github.com/relab/hotstuff/zverif/mcrt"

// schedFiles: files explored under the controlled scheduler, with the minimum number of
// select / go statements the checks rely on being instrumented.
var schedFiles = []struct {
	file           string
	minSel, minGo  int
}{
	{"internal/proto/clientpb/cmdcache.go", 1, 0},
	{"core/eventloop/queue.go", 1, 0},
	{"core/eventloop/eventloop.go", 1, 0},
	{"core/eventloop/gpool.go", 0, 0},
	{"protocol/votingmachine/votingmachine.go", 0, 1},
	{"protocol/viewstates.go", 0, 0},
	{"security/blockchain/blockchain.go", 0, 0},
	{"security/cert/cache.go", 0, 0},
}

func schedRewrites() []rewrite {
	var out []rewrite
	for _, sf := range schedFiles {
		sf := sf
		out = append(out, rewrite{file: sf.file, apply: func(path string, src []byte) ([]byte, error) {
			res, nsel, ngo, err := schedRewrite(path, src)
			if err != nil {
				return nil, err
			}
			if nsel < sf.minSel || ngo < sf.minGo {
				return nil, fmt.Errorf("expected at least %d select and %d go statements to instrument, found %d and %d", sf.minSel, sf.minGo, nsel, ngo)
			}
			return res, nil
		}})
	}
	return out
}

func sel(x, name string) ast.Expr {
	return &ast.SelectorExpr{X: ast.NewIdent(x), Sel: ast.NewIdent(name)}
}

func schedRewrite(path string, src []byte) ([]byte, int, int, error) {
	fset := token.NewFileSet()
	f, err := parser.ParseFile(fset, path, src, 0) // comments dropped on purpose (they would be misplaced)
	if err != nil {
		return nil, 0, 0, err
	}
	// 1. import "sync" -> the shim under the same name
	found := false
	for _, imp := range f.Imports {
		if p, _ := strconv.Unquote(imp.Path.Value); p == "sync" {
			imp.Path.Value = strconv.Quote(mcrtPath)
			imp.Name = ast.NewIdent("sync")
			found = true
		}
	}
	if !found {
		return nil, 0, 0, fmt.Errorf("file does not import sync")
	}
	nsel, ngo := 0, 0
	var rewriteStmts func(list []ast.Stmt) []ast.Stmt
	var rewriteStmt func(s ast.Stmt) ast.Stmt
	rewriteStmt = func(s ast.Stmt) ast.Stmt {
		switch st := s.(type) {
		case *ast.GoStmt:
			ngo++
			body := &ast.BlockStmt{List: []ast.Stmt{&ast.ExprStmt{X: st.Call}}}
			fn := &ast.FuncLit{Type: &ast.FuncType{Params: &ast.FieldList{}}, Body: body}
			// nested function literals inside the call are rewritten as well
			ast.Inspect(st.Call, func(n ast.Node) bool {
				if fl, ok := n.(*ast.FuncLit); ok {
					fl.Body.List = rewriteStmts(fl.Body.List)
				}
				return true
			})
			return &ast.ExprStmt{X: &ast.CallExpr{Fun: sel("sync", "Go"), Args: []ast.Expr{fn}}}
		case *ast.SelectStmt:
			var cases []ast.Expr
			var clauses []ast.Stmt
			ok := true
			for i, c := range st.Body.List {
				cc := c.(*ast.CommClause)
				switch comm := cc.Comm.(type) {
				case nil:
					cases = append(cases, &ast.CallExpr{Fun: sel("sync", "D")})
				case *ast.ExprStmt:
					u, isRecv := comm.X.(*ast.UnaryExpr)
					if !isRecv || u.Op != token.ARROW {
						ok = false
					} else {
						cases = append(cases, &ast.CallExpr{Fun: sel("sync", "R"), Args: []ast.Expr{u.X}})
					}
				case *ast.SendStmt:
					cases = append(cases, &ast.CallExpr{Fun: sel("sync", "S"), Args: []ast.Expr{comm.Chan, comm.Value}})
				default:
					ok = false // receive with assignment: left alone
				}
				clauses = append(clauses, &ast.CaseClause{List: []ast.Expr{&ast.BasicLit{Kind: token.INT, Value: strconv.Itoa(i)}}, Body: rewriteStmts(cc.Body)})
			}
			if !ok {
				return s
			}
			nsel++
			return &ast.SwitchStmt{Tag: &ast.CallExpr{Fun: sel("sync", "Select"), Args: cases}, Body: &ast.BlockStmt{List: clauses}}
		case *ast.BlockStmt:
			st.List = rewriteStmts(st.List)
		case *ast.IfStmt:
			st.Body.List = rewriteStmts(st.Body.List)
			if st.Else != nil {
				st.Else = rewriteStmt(st.Else)
			}
		case *ast.ForStmt:
			st.Body.List = rewriteStmts(st.Body.List)
		case *ast.RangeStmt:
			st.Body.List = rewriteStmts(st.Body.List)
		case *ast.LabeledStmt:
			st.Stmt = rewriteStmt(st.Stmt)
		case *ast.SwitchStmt:
			for _, c := range st.Body.List {
				cc := c.(*ast.CaseClause)
				cc.Body = rewriteStmts(cc.Body)
			}
		case *ast.TypeSwitchStmt:
			for _, c := range st.Body.List {
				cc := c.(*ast.CaseClause)
				cc.Body = rewriteStmts(cc.Body)
			}
		case *ast.DeferStmt:
			if fl, ok := st.Call.Fun.(*ast.FuncLit); ok {
				fl.Body.List = rewriteStmts(fl.Body.List)
			}
		case *ast.ExprStmt, *ast.AssignStmt, *ast.ReturnStmt:
			ast.Inspect(s, func(n ast.Node) bool {
				if fl, ok := n.(*ast.FuncLit); ok {
					fl.Body.List = rewriteStmts(fl.Body.List)
					return false
				}
				return true
			})
		}
		return s
	}
	rewriteStmts = func(list []ast.Stmt) []ast.Stmt {
		for i, s := range list {
			list[i] = rewriteStmt(s)
		}
		return list
	}
	for _, d := range f.Decls {
		if fd, ok := d.(*ast.FuncDecl); ok && fd.Body != nil {
			fd.Body.List = rewriteStmts(fd.Body.List)
		}
		// package-level function literals (var x = func() {...})
		if gd, ok := d.(*ast.GenDecl); ok {
			ast.Inspect(gd, func(n ast.Node) bool {
				if fl, ok := n.(*ast.FuncLit); ok {
					fl.Body.List = rewriteStmts(fl.Body.List)
					return false
				}
				return true
			})
		}
	}
	var buf bytes.Buffer
	if err := printer.Fprint(&buf, token.NewFileSet(), f); err != nil {
		return nil, 0, 0, err
	}
	return buf.Bytes(), nsel, ngo, nil
}
