//go:build verif

package network

import "github.com/relab/hotstuff/internal/proto/hotstuffpb"

// VerifRequestBlockQF exposes the quorum function of the block-fetch call.
func VerifRequestBlockQF(in *hotstuffpb.BlockHash, replies map[uint32]*hotstuffpb.Block) (*hotstuffpb.Block, bool) {
	return qspec{}.RequestBlockQF(in, replies)
}
