//go:build verif

package synchronizer

import "time"

// verifAfterFunc stands in for time.AfterFunc in startTimeoutTimer when the harness overlay is
// active. View timers of a million hours (the harness's "never": local timeouts are events chosen
// by the explorer) are created stopped, so that they do not pin the replica in the runtime's timer
// heap; every other duration behaves exactly like time.AfterFunc.
func verifAfterFunc(d time.Duration, f func()) *time.Timer {
	if d >= 100_000*time.Hour {
		t := time.NewTimer(d)
		t.Stop()
		return t
	}
	return time.AfterFunc(d, f)
}
