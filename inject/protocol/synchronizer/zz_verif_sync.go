//go:build verif

package synchronizer

import "time"

// VerifTimer returns the replica's current view timer. The harness only compares identities: a
// one-shot timer that has fired can fire again only after startTimeoutTimer has armed a new one.
func (s *Synchronizer) VerifTimer() *time.Timer { return s.timer.timerDoNotUse }
