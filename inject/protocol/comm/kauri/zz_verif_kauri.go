//go:build verif

package kauri

import (
	"context"

	"github.com/relab/gorums"
	"github.com/relab/hotstuff/core/eventloop"
	"github.com/relab/hotstuff/internal/proto/kauripb"
)

// VerifSendContribution delivers a tree contribution through the real service implementation.
func VerifSendContribution(el *eventloop.EventLoop, ctx context.Context, c *kauripb.Contribution) {
	kauriServiceImpl{eventLoop: el}.SendContribution(gorums.ServerCtx{Context: ctx}, c)
}
