//go:build verif

package comm

import (
	"runtime"
	"time"
)

// verifSleep stands in for time.Sleep in Kauri.waitToAggregate when the harness overlay is active.
// A wait of 100 h or more is the harness's "never" (the timer's expiry is delivered as an event by
// the explorer instead): the waiting goroutine ends here rather than sleeping, so that it does not
// keep the replica in memory. Every shorter wait is a plain time.Sleep.
func verifSleep(d time.Duration) {
	if d >= 100*time.Hour {
		runtime.Goexit()
	}
	time.Sleep(d)
}
