//go:build verif

package comm

import "github.com/relab/hotstuff"

// VerifWaitTimerExpired builds the (otherwise unconstructible) aggregation-timer event.
func VerifWaitTimerExpired(view hotstuff.View) WaitTimerExpiredEvent {
	return WaitTimerExpiredEvent{currentView: view}
}
