//go:build verif

package server

import (
	"context"

	"github.com/relab/gorums"
	"github.com/relab/hotstuff/internal/proto/hotstuffpb"
)

// VerifService exposes the gorums service implementation of a Server to the harness.
type VerifService struct{ impl *serviceImpl }

func VerifNewService(srv *Server) *VerifService { return &VerifService{&serviceImpl{srv}} }

func sctx(ctx context.Context) gorums.ServerCtx { return gorums.ServerCtx{Context: ctx} }

func (v *VerifService) Propose(ctx context.Context, m *hotstuffpb.Proposal)  { v.impl.Propose(sctx(ctx), m) }
func (v *VerifService) Vote(ctx context.Context, m *hotstuffpb.PartialCert) { v.impl.Vote(sctx(ctx), m) }
func (v *VerifService) NewView(ctx context.Context, m *hotstuffpb.SyncInfo) { v.impl.NewView(sctx(ctx), m) }
func (v *VerifService) Timeout(ctx context.Context, m *hotstuffpb.TimeoutMsg) {
	v.impl.Timeout(sctx(ctx), m)
}
func (v *VerifService) RequestBlock(ctx context.Context, m *hotstuffpb.BlockHash) (*hotstuffpb.Block, error) {
	return v.impl.RequestBlock(sctx(ctx), m)
}
