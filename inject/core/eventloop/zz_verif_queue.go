//go:build verif

package eventloop

// VerifQueue exposes the unexported bounded queue to the verification harness.
type VerifQueue struct{ q queue }

func VerifNewQueue(capacity uint) *VerifQueue { return &VerifQueue{q: newQueue(capacity)} }
func (v *VerifQueue) Push(e any) any         { return v.q.push(e) }
func (v *VerifQueue) Pop() (any, bool)       { return v.q.pop() }
func (v *VerifQueue) Len() int               { return v.q.len() }
