//go:build verif

package hotstuff

import "time"

// VerifClock is the harness clock used by NewBlock in verification builds
// (block.go's time.Now() is rewritten to verifNow() by /verif/tools/overlaygen).
var VerifClock = time.Date(2025, 6, 1, 0, 0, 0, 0, time.UTC)

func verifNow() time.Time { return VerifClock }
