//go:build verif

package twins

import "github.com/relab/hotstuff"

// VerifCheckCommits runs the executor's verdict function on synthetic commit logs.
func VerifCheckCommits(logs map[NodeID][]*hotstuff.Block) (safe bool, commits int) {
	n := &Network{nodes: make(map[NodeID]*node), replicas: make(map[hotstuff.ID][]*node)}
	for id, log := range logs {
		nd := &node{id: id, executedBlocks: log}
		n.nodes[id] = nd
		n.replicas[id.ReplicaID] = append(n.replicas[id.ReplicaID], nd)
	}
	return checkCommits(n)
}

// VerifAllNodes returns the node ids a generator with these settings works with.
func VerifAllNodes(numNodes, numTwins uint8) (nodes, twins []NodeID) {
	return assignNodeIDs(numNodes, numTwins)
}
